#!/usr/bin/env python3
"""Translate the in-memory bookkeeping of file_builder/cache.py (class Cache) into Gallina (Gen/CacheGen.v).

    python cache_tr.py <repo_dir> <output.v>

One definition `gen_c_<method>` per method of Cache (`gen_c_priv_<method>` for a method whose name starts with
`_`, `gen_c_const_<NAME>` for a class constant), over the generated record `gcache` that has one field per Python
attribute (table FIELDS; `_files` and `_norm_cased_files` are two fields, as in the Python).  The JSON half of the
class (SKIP: write, read_immutable, _*_to_json, _operation*_from_json) is not translated: it is Model/Persist.v.
The object is the explicit state `s`.  The shape of a method is inferred:
  instance, never raises  -> gcache | A | gcache * A        (gcache when it mutates, A when it returns a value)
  instance, may raise     -> cres gcache A                  (CRet s a | CRaise s e, e : exn of Model/Types.v)
  static, never raises    -> A
  static, may raise       -> A + exn
A method "may raise" when it contains `raise`, reads an attribute of an operation record, or calls such a method.
Fail-closed: any statement or expression outside the shapes below ends the run with
"TRANSLATION-ERROR cache: <file>:<line>: ..." and exit status 1; nothing is written.

Data.  File names are `path` (os.path.normcase = identity), subbuild keys and JSON values `pyval`, function / build
names `string`, operation records the model's `op`.  Parameter kinds come from the table PARAMS (by parameter name);
every use is kind-checked.  Attributes (FIELDS):
  str    _build_name                      string                      read
  fdict  _files, _norm_cased_files        list (path * option op)     F[k] = v / F.get(k) / k in F / F.pop(k, None) /
                                                                      F.items()
  sdict  _subbuilds                       list (pyval * option op)    F[k] = v / F.get(k) / k in F
  pset   _created_dirs                    list path                   F.update(<paths>) / list(F)
  plist  _built_files                     list path                   F.append(x) / list(F) / x in F /
                                                                      `if x in F: F.remove(x)` (first occurrence)
  json   _func_versions, _operation_versions   pyval                  F.get(<str>)
Locks (`self._*_lock`, threading.Lock(), contextlib.nullcontext(), `with <locks>:`, the constructor's
`if is_mutable:` that only creates locks) are dropped.

Operation records.  operation.py is parsed for the class hierarchy and the attributes each class assigns in
__init__ (table CTORS maps them to the arguments of OSimple / OBuildFile / OSubbuild).  The first time a statement
reads `x.attr` or tests `isinstance(x, C)` on a record `x` whose class is not known yet, the statement and everything
after it is translated once per constructor under `match x with ...`; in each arm isinstance is decided
statically, an attribute the class has is the bound pattern variable, an attribute it lacks ends the arm with
CRaise s (XCrash "AttributeError") (exactly where Python raises it: expressions have no other effect).

Expressions: names, True/False/None, not/and/or, `in` / `not in` on the attributes above, `x is [not] None`,
os.path.normcase(e) (= e), self.F / self.F.get(k) / list(self.F), x.attr, isinstance(x, C), Cache.<CONST>,
JsonUtil.to_hashable(e), [e1, ..., en] of str / JSON values (a PList).
Statements: docstrings; `with <locks>:`; `x = e`; the attribute operations above; `local.append(e)`; calls
self.m(args) / Cache.m(args) / Cache(args) as a statement, in `x = ...` or in `return ...`; if / elif / else
(`if A and B` is `if A: if B`); `if x is [not] None` on the result of a dict .get / a dict value is a match on the
option; return (`return x is not None and e` is `if x is not None: return e / else: return False`);
`raise RuntimeError(<literal>[.format(args)])` with the literal in the table RUNTIME (the arguments are evaluated for
their AttributeError only; json.dumps(e) is assumed not to raise);
  for   `for k, v in <fdict>.items(): BODY` / `for x in y.suboperations: BODY` -> a local fix over the list that
        threads the state and the locals BODY appends to; the code after the loop is its [] branch; no break /
        continue / return inside.
A method that calls itself must do so on the loop variable of `for x in <its record parameter>.suboperations`: it
becomes a Fixpoint, structural on that parameter.
The constructor must first assign every attribute of FIELDS exactly once (a parameter, [] / {} / set()) and may
create locks; the statements after that are translated as above.
"""
import ast
import os
import re
import sys


class TranslationError(Exception):
    pass


class NeedSplit(Exception):
    """a statement needs the constructor of the record held by the variable .var"""
    def __init__(self, var):
        self.var = var


class PyAttributeError(Exception):
    """the statement being translated raises AttributeError"""


CLS = "Cache"
PREFIX = "gen_c_"
STATE = "gcache"
FIELDS = {"_build_name": ("g_name", "str"), "_files": ("g_files", "fdict"), "_subbuilds": ("g_subs", "sdict"),
          "_created_dirs": ("g_dirs", "pset"), "_func_versions": ("g_fvers", "json"),
          "_operation_versions": ("g_opvers", "json"), "_built_files": ("g_built", "plist"),
          "_norm_cased_files": ("g_ncfiles", "fdict")}
LOCKS = {"_files_lock", "_subbuilds_lock", "_created_dirs_lock"}
SKIP = {"write", "read_immutable", "_simple_operation_to_json", "_complex_operation_to_json", "_operation_to_json",
        "_operation_from_json", "_operations_from_json"}
PARAMS = {"filename": "path", "norm_cased_filename": "path", "subbuild_key": "key", "operation": "op",
          "func_name": "str", "operation_name": "str", "build_name": "str", "created_dirs": "paths",
          "files": "fdict", "subbuilds": "sdict", "func_versions": "json", "operation_versions": "json",
          "is_mutable": "bool"}
FVAL = {"str": "str", "fdict": "fdict", "sdict": "sdict", "pset": "paths", "plist": "paths", "json": "json"}
KTYPE = {"path": "path", "str": "string", "key": "pyval", "json": "pyval", "bool": "bool", "op": "op",
         "optop": "option op", "paths": "list path", "fdict": "list (path * option op)",
         "sdict": "list (pyval * option op)", "ops": "list op", "unit": "unit", "state": STATE}
# RuntimeError messages (prefix of the literal) -> rtkind of Model/Types.v
RUNTIME = [("Building the same file twice is not allowed", "RDupFile"),
           ("Calling the same subbuild function twice", "RDupSubbuild")]
# operation.py: expected hierarchy, and the constructor arguments of `op` (None: not an attribute / not modelled)
HIERARCHY = {"Operation": None, "SimpleOperation": "Operation", "ComplexOperation": "Operation",
             "BuildFileOperation": "ComplexOperation", "SubbuildOperation": "ComplexOperation"}
CTORS = {
    "Simple": dict(cls="SimpleOperation", coq="OSimple",
                   pat=[("q", None), ("return_value", "json"), ("exception_type_str", None)]),
    "BuildFile": dict(cls="BuildFileOperation", coq="OBuildFile",
                      pat=[("filename", "path"), ("file_comparison", None), ("func_name", "str"), ("args", "json"),
                           ("kwargs", "json"), ("suboperations", "ops"), ("return_value", "json"),
                           ("file_comparison_result", "json"), ("raised", "bool"), ("setup_failed", "bool")]),
    "Subbuild": dict(cls="SubbuildOperation", coq="OSubbuild",
                     pat=[("func_name", "str"), ("args", "json"), ("kwargs", "json"), ("suboperations", "ops"),
                          ("return_value", "json"), ("raised", "bool"), ("setup_failed", "bool")]),
}
UNMODELLED = {"Simple": {"args", "name", "is_finished"}, "BuildFile": {"is_finished"}, "Subbuild": {"is_finished"}}
MODULES = {"self", "os", "json", "threading", "contextlib", "Cache", "JsonUtil", "gzip", "zlib"}
RESERVED = {"s", "e_", "in", "end", "at", "fun", "fix", "let", "match", "with", "if", "then", "else", "return", "as",
            "Some", "None", "tt", "true", "false", "inl", "inr", "op", "path", "string", "bool", "unit", "exn"}


def cname(n):
    return n + "_py" if n in RESERVED or re.match(r"(loop|xs)\d", n) else n


def ind(txt, n=2):
    return "\n".join(" " * n + l for l in txt.split("\n"))


def coq_string(s):
    if any(ord(c) < 32 or ord(c) > 126 for c in s):
        raise TranslationError("non-printable character in a string literal")
    return '"%s"' % s.replace('"', '""')


def occurs(var, txt):
    return re.search(r"(?<![\w'])%s(?![\w'])" % re.escape(var), txt) is not None


class T:
    """A translated expression: Coq text + kind (KTYPE, "none" for the literal None, "emptylist" for []).
    .const: static boolean; .ctor / .fields: constructor of a record variable once known and its pattern
    variables {attr: (text, kind)}; .sub_of: the record variable whose .suboperations a loop variable ranges over."""
    def __init__(self, txt, kind, **kw):
        self.txt, self.kind = txt, kind
        self.const = self.ctor = self.fields = self.sub_of = None
        self.__dict__.update(kw)


def self_attr(e):
    if isinstance(e, ast.Attribute) and isinstance(e.value, ast.Name) and e.value.id == "self":
        return e.attr
    return None


def dotted(e):
    try:
        return ast.unparse(e)
    except Exception:
        return ""


def method_call(e):
    """e is `<recv>.<attr>(args)` without keywords -> (receiver node, attr, args)"""
    if isinstance(e, ast.Call) and not e.keywords and isinstance(e.func, ast.Attribute):
        return e.func.value, e.func.attr, e.args
    return None


def own_call(e):
    """e is self.m(args) / Cache.m(args) / Cache(args) -> (method name, args) ('__init__' for Cache(args))"""
    if not isinstance(e, ast.Call) or e.keywords:
        return None
    if isinstance(e.func, ast.Name) and e.func.id == CLS:
        return "__init__", e.args
    if (isinstance(e.func, ast.Attribute) and isinstance(e.func.value, ast.Name) and e.func.value.id in ("self", CLS)):
        return e.func.attr, e.args
    return None


# ---------------------------------------------------------------- operation.py
def read_operation_classes(path):
    """{class: set of attributes its instances have}, after checking the hierarchy against HIERARCHY / CTORS"""
    def fail(msg, node=None):
        raise TranslationError("%s:%d: %s" % (path, getattr(node, "lineno", 0), msg))
    tree = ast.parse(open(path).read(), path)
    own, bases = {}, {}
    for n in tree.body:
        if isinstance(n, ast.Expr) and isinstance(n.value, ast.Constant):
            continue
        if not isinstance(n, ast.ClassDef) or n.decorator_list or n.keywords or len(n.bases) > 1:
            fail("module-level statement other than a plain class", n)
        bases[n.name] = n.bases[0].id if n.bases and isinstance(n.bases[0], ast.Name) else None
        if n.bases and bases[n.name] is None:
            fail("base class expression", n)
        attrs = set()
        for m in n.body:
            if isinstance(m, ast.Expr) and isinstance(m.value, ast.Constant) or isinstance(m, ast.Pass):
                continue
            if not isinstance(m, ast.FunctionDef) or m.name != "__init__" or m.decorator_list:
                fail("class member other than __init__", m)
            for st in m.body:
                if isinstance(st, ast.Expr) and isinstance(st.value, ast.Constant):
                    continue
                a = self_attr(st.targets[0]) if isinstance(st, ast.Assign) and len(st.targets) == 1 else None
                if a:
                    attrs.add(a)
                elif not (isinstance(st, ast.Expr) and dotted(st.value).startswith("super().__init__(")):
                    fail("constructor statement %s" % dotted(st)[:50], st)
        own[n.name] = attrs
    if bases != HIERARCHY:
        fail("class hierarchy of operation.py is not the expected one: %r" % bases)
    full = {}
    for c in own:
        full[c], b = set(own[c]), bases[c]
        while b:
            full[c] |= own[b]
            b = bases[b]
    for k, c in CTORS.items():
        listed = {a for a, _ in c["pat"] if a != "q"} | UNMODELLED[k]
        if listed != full[c["cls"]]:
            fail("attributes of %s are %s, the translator knows %s" % (c["cls"], sorted(full[c["cls"]]), sorted(listed)))
    return full, bases


# ---------------------------------------------------------------- analysis
class Sig:
    def __init__(self):
        self.calls, self.exc, self.mut, self.ret, self.rec, self.static = set(), False, False, False, False, False
        self.retkind, self.params = None, []


def analyse(methods, fail):
    """effects of every method: syntactic scan, then propagation along own calls"""
    sigs = {}
    for name, fn in methods.items():
        g = sigs[name] = Sig()
        g.static = any(isinstance(d, ast.Name) and d.id == "staticmethod" for d in fn.decorator_list)
        funcs = set()
        for n in ast.walk(fn):
            if isinstance(n, ast.Call):
                funcs.add(id(n.func))
                oc = own_call(n)
                if oc:
                    if oc[0] not in methods or oc[0] in SKIP:
                        fail("call of the unknown or untranslated method %s" % oc[0], n)
                    g.calls.add(oc[0])
                mc = method_call(n)
                if mc and self_attr(mc[0]) in FIELDS and mc[1] in ("pop", "append", "remove", "update", "clear",
                                                                    "setdefault", "add", "discard"):
                    g.mut = True
            if isinstance(n, ast.Subscript) and not isinstance(n.ctx, ast.Load):
                g.mut = True
            if isinstance(n, ast.Raise):
                g.exc = True
            if isinstance(n, ast.Return) and n.value is not None:
                g.ret = True
        for n in ast.walk(fn):
            if (isinstance(n, ast.Attribute) and isinstance(n.value, ast.Name) and n.value.id not in MODULES
                    and id(n) not in funcs):
                g.exc = True                        # x.attr on a record: AttributeError is possible
        g.rec = name in g.calls
        if name == "__init__":
            g.mut, g.ret = False, True
    changed = True
    while changed:
        changed = False
        for name, g in sigs.items():
            for c in g.calls - {name}:
                h = sigs[c]
                new = (g.exc or h.exc, g.mut or (h.mut and not h.static and c != "__init__"))
                if new != (g.exc, g.mut):
                    g.exc, g.mut = new
                    changed = True
    order, state = [], {}
    def visit(name):
        if state.get(name) == 1:
            fail("mutual recursion through %s" % name, methods[name])
        if name in state:
            return
        state[name] = 1
        for c in sorted(sigs[name].calls - {name}, key=list(methods).index):
            visit(c)
        state[name] = 2
        order.append(name)
    for name in methods:
        visit(name)
    return sigs, order


def gname(name):
    if name == "__init__":
        return PREFIX + "init"
    return PREFIX + ("priv_" + name.lstrip("_") if name.startswith("_") else name)


# ---------------------------------------------------------------- one method
class MethodTr:
    def __init__(self, fn, sigs, path, opclasses, consts):
        self.fn, self.sigs, self.path = fn, sigs, path
        self.attrs, self.bases = opclasses
        self.consts = consts
        self.sig = sigs[fn.name]
        self.static = self.sig.static
        self.exc = self.sig.exc
        self.is_init = fn.name == "__init__"
        self.gname = gname(fn.name)
        self.nfresh = self.nloops = 0
        self.in_loop = False
        self.names = {n.id for n in ast.walk(fn) if isinstance(n, ast.Name)} | {a.arg for a in fn.args.args}
        self.struct = None

    def fail(self, msg, node):
        raise TranslationError("%s:%d: %s" % (self.path, getattr(node, "lineno", 0), msg))

    def fresh(self, base):
        self.nfresh += 1
        while "%s%d_" % (base, self.nfresh) in self.names:
            self.nfresh += 1
        return "%s%d_" % (base, self.nfresh)

    # ---- environment ----
    def bind(self, env, name, t):
        """env with `name` bound to t; entries that mention the Coq variable being rebound are forgotten (a later
        use of them is then an unknown name: fail-closed)"""
        v = cname(name)
        env2 = {}
        for k, x in env.items():
            if k == name:
                continue
            if x.txt != cname(k) and occurs(v, x.txt):
                continue
            if x.fields and any(occurs(v, ft) for ft, _ in x.fields.values()):
                x = T(x.txt, x.kind)
            if x.sub_of == v:
                x = T(x.txt, x.kind, ctor=x.ctor, fields=x.fields)
            env2[k] = x
        env2[name] = t
        return env2

    def field(self, e):
        a = self_attr(e)
        return FIELDS.get(a)

    def setf(self, f, val):
        return "let s := set_%s s %s in" % (f, val)

    def want(self, t, kind, node):
        kinds = kind if isinstance(kind, tuple) else (kind,)
        if t.kind not in kinds:
            self.fail("expected %s, found %s (%s)" % (" or ".join(kinds), t.kind, t.txt[:40]), node)
        return t

    # ---- records ----
    def record(self, e, env):
        """the record variable e (a Name of kind op) with its constructor known, or NeedSplit"""
        if not isinstance(e, ast.Name):
            self.fail("attribute / isinstance of something other than a variable: %s" % dotted(e)[:50], e)
        x = self.expr(e, env)
        self.want(x, "op", e)
        if x.ctor is None:
            if x.txt != cname(e.id):
                self.fail("record %r is not a plain variable" % e.id, e)
            raise NeedSplit(e.id)
        return x

    def split(self, var, env, k):
        x = env[var]
        arms = []
        for key, c in CTORS.items():
            binders, fields = [], {}
            for attr, kind in c["pat"]:
                b = "%s_%s" % (x.txt, attr)
                if b in self.names or b in RESERVED:
                    raise TranslationError("%s: the name %r is needed for a pattern variable" % (self.path, b))
                binders.append(b)
                if kind:
                    fields[attr] = (b, kind)
            env2 = dict(env)
            env2[var] = T(x.txt, "op", ctor=key, fields=fields, sub_of=x.sub_of)
            body = k(env2)
            pat = " ".join(b if occurs(b, body) else "_" for b in binders)
            arms.append(" | %s %s =>\n%s" % (c["coq"], pat, ind(body, 4)))
        return "(match %s with\n%s\n end)" % (x.txt, "\n".join(arms))

    def isinstance_of(self, ctor, cls, node):
        if cls not in self.bases:
            self.fail("isinstance with the unknown class %s" % cls, node)
        c = CTORS[ctor]["cls"]
        while c:
            if c == cls:
                return True
            c = self.bases[c]
        return False

    # ---- expressions (pure, except for NeedSplit / PyAttributeError) ----
    def expr(self, e, env):
        if isinstance(e, ast.Constant) and isinstance(e.value, bool):
            return T("true" if e.value else "false", "bool", const=e.value)
        if isinstance(e, ast.Constant) and e.value is None:
            return T("None", "none")
        if isinstance(e, ast.Name):
            if e.id not in env:
                self.fail("unknown or no longer valid name %r" % e.id, e)
            return env[e.id]
        if isinstance(e, ast.List):
            if not e.elts:
                return T("[]", "emptylist")
            xs = []
            for x in e.elts:                                     # left to right, as Python evaluates them
                t = self.want(self.expr(x, env), ("str", "json", "key"), x)
                xs.append("PStr %s" % t.txt if t.kind == "str" else t.txt)
            return T("(PList [%s])" % "; ".join(xs), "json")
        if isinstance(e, ast.UnaryOp) and isinstance(e.op, ast.Not):
            a = self.want(self.expr(e.operand, env), "bool", e)
            if a.const is not None:
                return T("false" if a.const else "true", "bool", const=not a.const)
            return T("(negb %s)" % a.txt, "bool")
        if isinstance(e, ast.BoolOp):
            ts = [self.want(self.expr(x, env), "bool", e) for x in e.values]
            op = "andb" if isinstance(e.op, ast.And) else "orb"
            r = ts[-1].txt
            for x in reversed(ts[:-1]):
                r = "(%s %s %s)" % (op, x.txt, r)
            return T(r, "bool")
        if isinstance(e, ast.Compare) and len(e.ops) == 1:
            return self.compare(e, e.ops[0], e.left, e.comparators[0], env)
        if isinstance(e, ast.Attribute):
            f = self.field(e)
            if f:
                if f[1] in ("str", "json"):
                    return T("(%s s)" % f[0], f[1])
                self.fail("the attribute %s used as a value" % e.attr, e)
            if isinstance(e.value, ast.Name) and e.value.id == CLS:
                if e.attr not in self.consts:
                    self.fail("unknown class constant %s" % e.attr, e)
                return T(PREFIX + "const_" + e.attr.lstrip("_"), self.consts[e.attr])
            if isinstance(e.value, ast.Name) and e.value.id in MODULES:
                self.fail("expression %s" % dotted(e)[:60], e)
            x = self.record(e.value, env)
            if e.attr in x.fields:
                return T(x.fields[e.attr][0], x.fields[e.attr][1], sub_of=x.txt if e.attr == "suboperations" else None)
            if e.attr in self.attrs[CTORS[x.ctor]["cls"]]:
                self.fail("the attribute %s of a %s is not modelled" % (e.attr, CTORS[x.ctor]["cls"]), e)
            raise PyAttributeError()
        if isinstance(e, ast.Call):
            return self.call(e, env)
        self.fail("expression %s" % dotted(e)[:60], e)

    def compare(self, e, op, l, r, env):
        if isinstance(op, (ast.In, ast.NotIn)):
            f = self.field(r)
            if f and f[1] == "fdict":
                txt = "(fdict_mem (%s s) %s)" % (f[0], self.want(self.expr(l, env), "path", e).txt)
            elif f and f[1] == "sdict":
                txt = "(sdict_mem (%s s) %s)" % (f[0], self.want(self.expr(l, env), "key", e).txt)
            elif f and f[1] in ("plist", "pset"):
                txt = "(mem_path %s (%s s))" % (self.want(self.expr(l, env), "path", e).txt, f[0])
            else:
                self.fail("membership in %s" % dotted(r)[:40], e)
            return T(txt if isinstance(op, ast.In) else "(negb %s)" % txt, "bool")
        if (isinstance(op, (ast.Is, ast.IsNot)) and isinstance(r, ast.Constant) and r.value is None
                and isinstance(l, ast.Name)):
            x = self.expr(l, env)
            if x.kind == "op":                       # already unwrapped by an enclosing `is not None` test
                v = isinstance(op, ast.IsNot)
                return T("true" if v else "false", "bool", const=v)
            self.want(x, "optop", e)
            a, b = ("true", "false") if isinstance(op, ast.IsNot) else ("false", "true")
            return T("(match %s with Some _ => %s | None => %s end)" % (x.txt, a, b), "bool")
        self.fail("comparison %s" % dotted(e)[:60], e)

    def call(self, e, env):
        fn = dotted(e.func)
        if e.keywords:
            self.fail("keyword arguments", e)
        if fn == "os.path.normcase" and len(e.args) == 1:
            return self.want(self.expr(e.args[0], env), "path", e)
        if fn == "isinstance" and len(e.args) == 2 and isinstance(e.args[1], ast.Name):
            x = self.record(e.args[0], env)
            v = self.isinstance_of(x.ctor, e.args[1].id, e)
            return T("true" if v else "false", "bool", const=v)
        if fn == "JsonUtil.to_hashable" and len(e.args) == 1:
            return T("(to_hashable %s)" % self.want(self.expr(e.args[0], env), ("json", "key"), e).txt, "key")
        if fn == "list" and len(e.args) == 1:
            f = self.field(e.args[0])
            if f and f[1] in ("plist", "pset"):
                return T("(%s s)" % f[0], "paths")
        mc = method_call(e)
        if mc and mc[1] == "get" and len(mc[2]) == 1:
            f = self.field(mc[0])
            if f and f[1] == "fdict":
                return T("(fdict_get (%s s) %s)" % (f[0], self.want(self.expr(mc[2][0], env), "path", e).txt), "optop")
            if f and f[1] == "sdict":
                return T("(sdict_get (%s s) %s)" % (f[0], self.want(self.expr(mc[2][0], env), "key", e).txt), "optop")
            if f and f[1] == "json":
                return T("(py_dict_get (PStr %s) (%s s))" % (self.want(self.expr(mc[2][0], env), "str", e).txt, f[0]), "json")
        self.fail("call %s" % dotted(e)[:60], e)

    # ---- results ----
    def raise_txt(self, exn):
        if not self.exc:
            raise TranslationError("%s: internal: raise in a method classified as total" % self.path)
        return "inr %s" % exn if self.static else "CRaise s %s" % exn

    def ret(self, val, node):
        if self.in_loop:
            self.fail("return inside a for loop", node)
        if self.is_init:
            if val is not None:
                self.fail("constructor returns a value", node)
            return "s"
        if (val is not None) != self.sig.ret:
            self.fail("method mixes `return <value>` and plain return / falling off the end", node)
        if val is not None:
            if val.kind in ("none", "emptylist") or val.kind not in KTYPE:
                self.fail("cannot type the returned value (%s)" % val.kind, node)
            k = self.sig.retkind
            if k is None:
                self.sig.retkind = val.kind
            elif k != val.kind:
                self.fail("return kinds %s and %s" % (k, val.kind), node)
        v = val.txt if val else "tt"
        if self.static:
            if val is None:
                self.fail("static method without a result", node)
            return "inl %s" % v if self.exc else v
        if self.exc:
            return "CRet s %s" % v
        parts = (["s"] if self.sig.mut else []) + ([val.txt] if val else [])
        return parts[0] if len(parts) == 1 else "(%s)" % ", ".join(parts) if parts else "tt"

    def call_text(self, e, env):
        name, args = own_call(e)
        h = self.sigs[name]
        if len(args) != len(h.params):
            self.fail("arity of %s" % name, e)
        if name == self.fn.name:
            a = args[self.struct[0]] if self.struct else None
            t = self.expr(a, env) if isinstance(a, ast.Name) else None
            if not t or t.sub_of != self.struct[1] or t.txt != cname(a.id):
                self.fail("recursive call on something other than an element of <record parameter>.suboperations", e)
        if not h.static and name != "__init__" and self.static:
            self.fail("instance method called from a static method", e)
        ts = [self.arg(a, k, env, e) for a, (_, k) in zip(args, h.params)]
        pre = ([] if h.static or name == "__init__" else ["s"]) + ts
        return h, "(%s)" % " ".join([gname(name)] + pre) if pre else gname(name)

    def arg(self, a, kind, env, node):
        """an argument of an own call; {} / set() / [] are the empty list at the parameter's kind"""
        if ((isinstance(a, ast.Dict) and not a.keys and kind in ("fdict", "sdict"))
                or (dotted(a) == "set()" and kind == "paths") or (isinstance(a, ast.List) and not a.elts and kind == "paths")):
            return "[]"
        return self.want(self.expr(a, env), kind, node).txt

    def bind_call(self, e, env, kont):
        """run an own method, then kont(returned value or None, env)"""
        h, call = self.call_text(e, env)
        rv = self.fresh("r") if h.ret else None
        if h.ret and h.retkind is None:
            self.fail("result kind of %s is not known here" % own_call(e)[0], e)
        val = T(rv, h.retkind) if rv else None
        body = kont(val, env)
        inst = not h.static and own_call(e)[0] != "__init__"
        if h.exc and inst:
            return "(match %s with\n | CRaise s e_ => %s\n | CRet s %s =>\n%s\n end)" % (
                call, self.raise_txt("e_"), rv or "_", ind(body, 4))
        if h.exc:
            return "(match %s with\n | inr e_ => %s\n | inl %s =>\n%s\n end)" % (call, self.raise_txt("e_"), rv or "_", ind(body, 4))
        pat = (["s"] if inst and h.mut else []) + ([rv] if rv else [])
        pat = pat[0] if len(pat) == 1 else "'(%s)" % ", ".join(pat) if pat else "_"
        return "let %s := %s in\n%s" % (pat, call, body)

    # ---- statements, in continuation-passing style: k(env) is the text of what follows ----
    def block(self, stmts, env, k, guard=None):
        if not stmts:
            return k(env)
        return self.stmt(stmts[0], env, stmts[1:], lambda env2: self.block(stmts[1:], env2, k), guard)

    def stmt(self, s, env, rest, k, guard=None):
        """guard = (field, text of x) when s is the first statement under `if x in self.<field>:`"""
        try:
            return self.stmt1(s, env, rest, k, guard)
        except NeedSplit as ns:
            return self.split(ns.var, env, lambda env2: self.stmt(s, env2, rest, k, guard))
        except PyAttributeError:
            return self.raise_txt('(XCrash "AttributeError")')

    def stmt1(self, s, env, rest, k, guard):
        if isinstance(s, ast.Expr) and isinstance(s.value, ast.Constant) and isinstance(s.value.value, str):
            return k(env)
        if isinstance(s, ast.With):
            for it in s.items:
                if it.optional_vars is not None or self_attr(it.context_expr) not in LOCKS:
                    self.fail("`with` on something other than the object's locks", s)
            return self.block(s.body, env, k)
        if isinstance(s, (ast.Return, ast.Raise)) and rest:
            self.fail("dead code after return/raise", rest[0])
        if isinstance(s, ast.Return):
            return self.stmt_return(s, env)
        if isinstance(s, ast.Raise):
            return self.stmt_raise(s, env)
        if isinstance(s, ast.Assign) and len(s.targets) == 1:
            return self.stmt_assign(s, s.targets[0], env, k)
        if isinstance(s, ast.Expr) and isinstance(s.value, ast.Call):
            return self.stmt_call(s, env, k, guard)
        if isinstance(s, ast.If):
            return self.stmt_if(s, env, k)
        if isinstance(s, ast.For) and not s.orelse:
            return self.stmt_for(s, env, k)
        self.fail("statement %s" % dotted(s).split("\n")[0][:60], s)

    def stmt_return(self, s, env):
        v = s.value
        if v is None:
            return self.ret(None, s)
        if own_call(v):
            h, call = self.call_text(v, env)
            name = own_call(v)[0]
            hs = h.static or name == "__init__"
            if (hs, h.exc, h.mut and not hs, h.ret) == (self.static, self.exc, self.sig.mut, self.sig.ret) and not self.in_loop:
                if h.retkind is None or (self.sig.retkind not in (None, h.retkind)):
                    self.fail("return kinds differ", s)
                self.sig.retkind = h.retkind
                return call                                           # tail call: same result shape
            return self.bind_call(v, env, lambda val, env2: self.ret(val, s))
        # return x is [not] None and e  ==  if x is [not] None: return e  else: return False
        if (isinstance(v, ast.BoolOp) and isinstance(v.op, ast.And) and len(v.values) >= 2 and self.is_none_test(v.values[0])):
            restv = v.values[1] if len(v.values) == 2 else ast.BoolOp(op=ast.And(), values=v.values[1:])
            node = ast.If(test=v.values[0], body=[ast.Return(value=restv)], orelse=[ast.Return(value=ast.Constant(value=False))])
            ast.copy_location(node, s)
            for n in ast.walk(node):
                if not hasattr(n, "lineno"):
                    ast.copy_location(n, s)
            return self.stmt(node, env, [], lambda env2: self.fail("internal: fall through", s))
        return self.ret(self.expr(v, env), s)

    def is_none_test(self, e):
        return (isinstance(e, ast.Compare) and len(e.ops) == 1 and isinstance(e.ops[0], (ast.Is, ast.IsNot))
                and isinstance(e.comparators[0], ast.Constant) and e.comparators[0].value is None
                and isinstance(e.left, ast.Name))

    def stmt_raise(self, s, env):
        e = s.exc
        if (s.cause is not None or not isinstance(e, ast.Call) or dotted(e.func) != "RuntimeError"
                or len(e.args) != 1 or e.keywords):
            self.fail("raise of something other than RuntimeError(<message>)", s)
        m = e.args[0]
        fargs = []
        mc = method_call(m)
        if mc and mc[1] == "format" and isinstance(mc[0], ast.Constant):
            m, fargs = mc[0], mc[2]
        if not isinstance(m, ast.Constant) or not isinstance(m.value, str):
            self.fail("RuntimeError message that is not a literal", s)
        kinds = [k for p, k in RUNTIME if m.value.startswith(p)]
        if len(kinds) != 1:
            self.fail("RuntimeError message not in the table RUNTIME: %r" % m.value[:40], s)
        for a in fargs:                                  # evaluated for their AttributeError only
            inner = a
            if isinstance(a, ast.Call) and dotted(a.func) == "json.dumps" and len(a.args) == 1 and not a.keywords:
                inner = a.args[0]
            self.want(self.expr(inner, env), ("str", "path", "json", "key"), a)
        return self.raise_txt("(XRuntime %s)" % kinds[0])

    def value_of(self, v, env, node):
        """the Coq `option op` stored by F[k] = v"""
        t = self.expr(v, env)
        if t.kind == "none":
            return "None"
        if t.kind == "op":
            return "(Some %s)" % t.txt
        return self.want(t, "optop", node).txt

    def stmt_assign(self, s, tgt, env, k):
        v = s.value
        if isinstance(tgt, ast.Subscript):
            f = self.field(tgt.value)
            if f and f[1] in ("fdict", "sdict"):
                key = self.want(self.expr(tgt.slice, env), "path" if f[1] == "fdict" else "key", s)
                val = self.value_of(v, env, s)
                fn = "files_set" if f[1] == "fdict" else "subs_set"
                return "%s\n%s" % (self.setf(f[0], "(%s (%s s) %s %s)" % (fn, f[0], key.txt, val)), k(env))
            self.fail("store %s" % dotted(tgt)[:50], s)
        if not isinstance(tgt, ast.Name):
            self.fail("assignment target %s" % dotted(tgt)[:50], s)
        x = tgt.id
        if own_call(v):
            def after(val, env2):
                if val is None:
                    self.fail("assignment of the result of a method without result", s)
                env3 = self.bind(env2, x, T(cname(x), val.kind))
                return "let %s := %s in\n%s" % (cname(x), val.txt, k(env3))
            return self.bind_call(v, env, after)
        t = self.expr(v, env)
        if t.kind == "none":
            self.fail("a local that is None", s)
        if isinstance(v, ast.Name) or dotted(getattr(v, "func", None)) == "os.path.normcase":
            return k(self.bind(env, x, T(t.txt, t.kind, ctor=t.ctor, fields=t.fields, sub_of=t.sub_of)))   # synonym
        env2 = self.bind(env, x, T(cname(x), t.kind))
        return "let %s := %s in\n%s" % (cname(x), t.txt, k(env2))

    def stmt_call(self, s, env, k, guard):
        e = s.value
        if own_call(e):
            return self.bind_call(e, env, lambda val, env2: k(env2))
        mc = method_call(e)
        if not mc:
            self.fail("call statement %s" % dotted(e)[:60], s)
        recv, attr, args = mc
        f = self.field(recv)
        def one(kind):
            if len(args) != 1:
                self.fail("arity of .%s" % attr, s)
            return self.want(self.expr(args[0], env), kind, s).txt
        if f and f[1] == "fdict" and attr == "pop":
            if not (len(args) == 2 and isinstance(args[1], ast.Constant) and args[1].value is None):
                self.fail("dict.pop without the default None", s)
            key = self.want(self.expr(args[0], env), "path", s).txt
            return "%s\n%s" % (self.setf(f[0], "(fdict_del (%s s) %s)" % (f[0], key)), k(env))
        if f and f[1] == "plist" and attr == "append":
            return "%s\n%s" % (self.setf(f[0], "(%s s ++ [%s])" % (f[0], one("path"))), k(env))
        if f and f[1] == "plist" and attr == "remove":
            x = one("path")
            if guard != (f[0], x):
                self.fail("list.remove(x) that is not the first statement under `if x in <the same list>:`", s)
            return "%s\n%s" % (self.setf(f[0], "(remove_first_path %s (%s s))" % (x, f[0])), k(env))
        if f and f[1] == "pset" and attr == "update":
            return "%s\n%s" % (self.setf(f[0], "(fold_left (fun acc_ p_ => add_path p_ acc_) %s (%s s))" % (one("paths"), f[0])), k(env))
        if isinstance(recv, ast.Name) and recv.id in env and attr == "append":
            x = env[recv.id]
            if x.kind in ("emptylist", "paths") and x.txt in (cname(recv.id), "[]"):
                env2 = self.bind(env, recv.id, T(cname(recv.id), "paths"))
                return "let %s := %s ++ [%s] in\n%s" % (cname(recv.id), x.txt, one("path"), k(env2))
        self.fail("call statement %s" % dotted(e)[:60], s)

    def stmt_if(self, s, env, k):
        t = s.test
        then = lambda env2: self.block(s.body, env2, k)
        other = lambda env2: self.block(s.orelse, env2, k)
        ite = lambda c, a, b: "(if %s then\n%s\n else\n%s)" % (c, ind(a, 4), ind(b, 4))
        # if A and B: X else: Y   ==   if A: (if B: X else: Y) else: Y
        if isinstance(t, ast.BoolOp) and isinstance(t.op, ast.And):
            restt = t.values[1] if len(t.values) == 2 else ast.BoolOp(op=ast.And(), values=t.values[1:])
            inner = ast.If(test=restt, body=s.body, orelse=s.orelse)
            outer = ast.If(test=t.values[0], body=[inner], orelse=s.orelse)
            for n in (inner, outer, restt):
                ast.copy_location(n, s)
            return self.stmt(outer, env, [], k)
        inner, neg = t, False
        while isinstance(inner, ast.UnaryOp) and isinstance(inner.op, ast.Not):
            inner, neg = inner.operand, not neg
        if self.is_none_test(inner) and self.expr(inner.left, env).kind == "optop":      # match on the option
            x = self.expr(inner.left, env)
            n = inner.left.id
            some_first = isinstance(inner.ops[0], ast.IsNot) != neg
            a, b = (then, other) if some_first else (other, then)
            env_some = self.bind(env, n, T(cname(n), "op"))
            env_none = {q: v for q, v in env.items() if q != n}
            return "(match %s with\n | Some %s =>\n%s\n | None =>\n%s\n end)" % (
                x.txt, cname(n), ind(a(env_some), 4), ind(b(env_none), 4))
        c = self.want(self.expr(t, env), "bool", s)
        if c.const is not None:
            return then(env) if c.const else other(env)
        # `if x in self.L:` guards list.remove(x) as the first statement of the body
        if (isinstance(t, ast.Compare) and len(t.ops) == 1 and isinstance(t.ops[0], ast.In) and self.field(t.comparators[0])
                and self.field(t.comparators[0])[1] == "plist"):
            g = (self.field(t.comparators[0])[0], self.expr(t.left, env).txt)
            return ite(c.txt, self.block(s.body, env, k, g), other(env))
        return ite(c.txt, then(env), other(env))

    def stmt_for(self, s, env, k):
        for b in s.body:
            for n in ast.walk(b):
                if isinstance(n, (ast.Break, ast.Continue, ast.Return, ast.While)):
                    self.fail("break / continue / return / while inside a for loop", n)
        it = s.iter
        mc = method_call(it)
        if mc and mc[1] == "items" and not mc[2]:
            f = self.field(mc[0])
            src = T("(%s s)" % f[0], f[1]) if f else self.expr(mc[0], env)
            self.want(src, "fdict", s)
            if (not isinstance(s.target, ast.Tuple) or len(s.target.elts) != 2
                    or not all(isinstance(x, ast.Name) for x in s.target.elts)):
                self.fail("loop target over .items() that is not `k, v`", s)
            a, b = s.target.elts[0].id, s.target.elts[1].id
            pat = "(%s, %s)" % (cname(a), cname(b))
            ety = KTYPE["fdict"]
            targets = [(a, T(cname(a), "path")), (b, T(cname(b), "optop"))]
        else:
            src = self.want(self.expr(it, env), "ops", s)
            if not isinstance(s.target, ast.Name):
                self.fail("loop target", s)
            a = s.target.id
            pat, ety = cname(a), KTYPE["ops"]
            targets = [(a, T(cname(a), "op", sub_of=src.sub_of))]
        tnames = [n for n, _ in targets]
        changed = set()
        for b in s.body:
            for n in ast.walk(b):
                if isinstance(n, ast.Assign):
                    for tg in n.targets:
                        for m in ast.walk(tg):
                            if isinstance(m, ast.Name) and isinstance(m.ctx, ast.Store):
                                changed.add(m.id)
                mc2 = method_call(n)
                if mc2 and mc2[1] == "append" and isinstance(mc2[0], ast.Name):
                    changed.add(mc2[0].id)
        for n in tnames:
            if n in changed:
                self.fail("loop body assigns its own loop variable %r" % n, s)
        carried = [n for n in env if n in changed]
        for n in carried:
            kd = env[n].kind
            if kd == "emptylist":
                kd = "paths"
            if kd not in ("paths", "bool", "path", "str") or env[n].txt not in (cname(n), "[]"):
                self.fail("loop changes %r, which is not a plain local it can thread" % n, s)
        self.nloops += 1
        loop, xs = "loop%d" % self.nloops, "xs%d" % self.nloops
        benv = dict(env)
        for n in carried:
            kd = "paths" if env[n].kind == "emptylist" else env[n].kind
            benv = self.bind(benv, n, T(cname(n), kd))
        aenv = dict(benv)                                    # after the loop: the threaded locals, not the targets
        for n, t in targets:
            benv = self.bind(benv, n, t)
        state = [] if self.static else ["s"]
        def again(e):
            for n in carried:
                if n not in e or e[n].txt != cname(n):
                    self.fail("loop body leaves %r in a form that cannot be threaded" % n, s)
            return " ".join([loop, xs + "'"] + state + [cname(n) for n in carried])
        saved = self.in_loop
        self.in_loop = True
        body = self.block(s.body, benv, again)
        self.in_loop = saved
        after = k(aenv)
        params = "".join(" (%s : %s)" % (cname(n), KTYPE[aenv[n].kind]) for n in carried)
        return "(fix %s (%s : %s)%s%s {struct %s} :=\n   match %s with\n   | [] =>\n%s\n   | %s :: %s' =>\n%s\n   end) %s" % (
            loop, xs, ety, " (s : %s)" % STATE if state else "", params, xs, xs, ind(after, 6), pat, xs, ind(body, 6),
            " ".join([src.txt] + state + [env[n].txt for n in carried]))

    # ---- whole methods ----
    def param_kinds(self):
        a = self.fn.args
        ps = [x.arg for x in a.args]
        if a.vararg or a.kwarg or a.kwonlyargs or a.defaults or getattr(a, "posonlyargs", None):
            self.fail("parameter list", self.fn)
        if not self.static:
            if not ps or ps[0] != "self":
                self.fail("instance method without self", self.fn)
            ps = ps[1:]
        for p in ps:
            if p not in PARAMS:
                self.fail("parameter %r is not in the table PARAMS" % p, self.fn)
        return [(p, PARAMS[p]) for p in ps]

    def translate(self):
        params = self.sig.params = self.param_kinds()
        env = {p: T(cname(p), k) for p, k in params}
        if self.sig.rec:
            ops = [(i, p) for i, (p, k) in enumerate(params) if k == "op"]
            if len(ops) != 1:
                self.fail("recursive method without exactly one record parameter", self.fn)
            self.struct = (ops[0][0], cname(ops[0][1]))
        if self.is_init:
            body = self.init_body(env)
        else:
            body = self.block(self.fn.body, env, lambda e: self.ret(None, self.fn))
        g = self.sig
        a = KTYPE.get(g.retkind) if g.ret and not self.is_init else None
        if g.ret and not self.is_init and a is None:
            self.fail("cannot type the returned value", self.fn)
        wrap = lambda ty: "(%s)" % ty if " " in ty else ty
        if self.is_init:
            rt = STATE
            g.retkind = "state"
        elif self.static:
            rt = "%s + exn" % wrap(a) if self.exc else a
        elif self.exc:
            rt = "cres %s %s" % (STATE, wrap(a or "unit"))
        else:
            rt = " * ".join(([STATE] if g.mut else []) + ([a] if a else [])) or "unit"
        sig = ([] if self.static or self.is_init else ["(s : %s)" % STATE]) + ["(%s : %s)" % (cname(p), KTYPE[k]) for p, k in params]
        sig = " ".join(sig)
        if g.rec:
            head = "Fixpoint %s %s {struct %s} : %s :=\n" % (self.gname, sig, self.struct[1], rt)
        else:
            head = "Definition %s %s%s: %s :=\n" % (self.gname, sig, " " if sig else "", rt)
        return head + ind(body) + ".\n"

    def init_body(self, env):
        """constructor: every attribute assigned exactly once first (locks dropped), then ordinary statements"""
        vals, i, body = {}, 0, self.fn.body
        nullctx = set()
        def lock_stmt(st):
            if not isinstance(st, ast.Assign) or len(st.targets) != 1:
                return False
            v = dotted(st.value)
            if self_attr(st.targets[0]) in LOCKS:
                return v == "threading.Lock()" or v in nullctx
            if isinstance(st.targets[0], ast.Name) and v == "contextlib.nullcontext()" and st.targets[0].id not in env:
                nullctx.add(st.targets[0].id)
                return True
            return False
        while i < len(body):
            st = body[i]
            if isinstance(st, ast.Expr) and isinstance(st.value, ast.Constant):
                i += 1
                continue
            if lock_stmt(st):
                i += 1
                continue
            if isinstance(st, ast.If):
                t = self.expr(st.test, env) if isinstance(st.test, ast.Name) else None
                if t and t.kind == "bool" and all(lock_stmt(x) for x in st.body) and all(lock_stmt(x) for x in st.orelse):
                    i += 1
                    continue
            a = self_attr(st.targets[0]) if isinstance(st, ast.Assign) and len(st.targets) == 1 else None
            if a not in FIELDS or a in vals:
                break
            f, kind = FIELDS[a]
            v = st.value
            if isinstance(v, ast.Name):
                vals[a] = self.want(self.expr(v, env), FVAL[kind], st).txt
            elif isinstance(v, ast.Dict) and not v.keys and kind in ("fdict", "sdict"):
                vals[a] = "[]"
            elif isinstance(v, ast.List) and not v.elts and kind == "plist":
                vals[a] = "[]"
            elif dotted(v) == "set()" and kind == "pset":
                vals[a] = "[]"
            else:
                self.fail("constructor value %s for %s" % (dotted(v)[:40], a), st)
            i += 1
        missing = [a for a in FIELDS if a not in vals]
        if missing:
            self.fail("constructor does not initialise %s before its other statements" % ", ".join(missing), self.fn)
        rec = ";\n".join("     %s := %s" % (FIELDS[a][0], vals[a]) for a in FIELDS)
        rest = self.block(body[i:], env, lambda e: self.ret(None, self.fn))
        return "let s :=\n  {|\n%s\n  |} in\n%s" % (rec, rest)


HEADER = """(* GENERATED by tools/translate/cache_tr.py from file_builder/cache.py (class Cache, in-memory bookkeeping) and the
   class hierarchy of file_builder/operation.py.  Do not edit: regenerate with
     python tools/translate/cache_tr.py /repo coq/Gen/CacheGen.v
   The equalities with the hand-written model are in Proofs/CacheGenLaws.v. *)
From Coq Require Import List String Bool Arith.
From FB.Base Require Import PyVal Fs.
From FB.Gen Require Import JsonUtilGen.          (* to_hashable *)
From FB.Model Require Import Types.              (* op, exn, files_get/files_set, subs_get/subs_set, mem_path, add_path *)
Import ListNotations.
Open Scope string_scope.
Open Scope list_scope.

(* outcome of a method that can raise: normal return, or an exception with the state it leaves *)
Inductive cres (S A : Type) : Type :=
| CRet (s : S) (a : A) | CRaise (s : S) (e : exn).
Arguments CRet {S A} s a.
Arguments CRaise {S A} s e.

(* dict<str, BuildFileOperation|None> / dict<key, SubbuildOperation|None>: d.get(k) (None when the key is absent or
   holds None), k in d, d.pop(k, None); list.remove(x): the first occurrence *)
Definition fdict_get (l : list (path * option op)) (p : path) : option op :=
  match files_get l p with Some o => o | None => None end.
Definition fdict_mem (l : list (path * option op)) (p : path) : bool :=
  match files_get l p with Some _ => true | None => false end.
Fixpoint fdict_del (l : list (path * option op)) (p : path) : list (path * option op) :=
  match l with
  | [] => []
  | (q, o) :: r => if path_eqb q p then fdict_del r p else (q, o) :: fdict_del r p
  end.
Definition sdict_get (l : list (pyval * option op)) (k : pyval) : option op :=
  match subs_get l k with Some o => o | None => None end.
Definition sdict_mem (l : list (pyval * option op)) (k : pyval) : bool :=
  match subs_get l k with Some _ => true | None => false end.
Fixpoint remove_first_path (p : path) (l : list path) : list path :=
  match l with [] => [] | q :: r => if path_eqb q p then r else q :: remove_first_path p r end.
"""


def record_and_setters():
    fs = list(FIELDS.values())
    ty = lambda kind: KTYPE[FVAL[kind]]
    out = ["(* the attributes of a Cache object (locks dropped) *)",
           "Record %s := {\n%s\n}." % (STATE, "\n".join("  %s : %s;" % (f, ty(k)) for f, k in fs).rstrip(";")),
           "(* attribute writes *)"]
    for f, kind in fs:
        rec = "; ".join("%s := %s" % (g, "v" if g == f else "%s s" % g) for g, _ in fs)
        out.append("Definition set_%s (s : %s) (v : %s) : %s :=\n  {| %s |}." % (f, STATE, ty(kind), STATE, rec))
    return "\n".join(out) + "\n"


def translate_class(repo):
    path = os.path.join(repo, "file_builder", "cache.py")
    opclasses = read_operation_classes(os.path.join(repo, "file_builder", "operation.py"))
    tree = ast.parse(open(path).read(), path)
    def fail(msg, node):
        raise TranslationError("%s:%d: %s" % (path, getattr(node, "lineno", 0), msg))
    classes = [n for n in tree.body if isinstance(n, ast.ClassDef)]
    for n in tree.body:
        if not isinstance(n, (ast.ClassDef, ast.Import, ast.ImportFrom)):
            fail("module-level statement", n)
    if len(classes) != 1 or classes[0].name != CLS or classes[0].bases or classes[0].decorator_list:
        fail("expected exactly the class %s" % CLS, tree.body[0])
    methods, consts, out = {}, {}, []
    for n in classes[0].body:
        if isinstance(n, ast.Expr) and isinstance(n.value, ast.Constant):
            continue
        if isinstance(n, ast.Assign) and len(n.targets) == 1 and isinstance(n.targets[0], ast.Name):
            c, v = n.targets[0].id, n.value
            if c in consts:
                fail("class constant %s assigned twice" % c, n)
            if isinstance(v, ast.Constant) and v.value is None:
                consts[c], ty, txt = "json", "pyval", "PNone"
            elif isinstance(v, ast.Dict) and not v.keys:
                consts[c], ty, txt = "json", "pyval", "PDict []"
            elif isinstance(v, ast.Constant) and isinstance(v.value, str):
                consts[c], ty, txt = "str", "string", coq_string(v.value)
            else:
                fail("class constant %s = %s" % (c, dotted(v)[:40]), n)
            out.append("Definition %sconst_%s : %s := %s.\n" % (PREFIX, c.lstrip("_"), ty, txt))
            continue
        if not isinstance(n, ast.FunctionDef) or n.name in methods:
            fail("class member other than a method or a constant", n)
        decs = [dotted(d) for d in n.decorator_list]
        if decs not in ([], ["staticmethod"]):
            fail("decorator %s" % decs, n)
        methods[n.name] = n
    if "__init__" not in methods:
        fail("no constructor", classes[0])
    for m in SKIP:
        if m not in methods:
            fail("the method %s listed in SKIP does not exist" % m, classes[0])
    todo = {k: v for k, v in methods.items() if k not in SKIP}
    names = {}
    for k in todo:
        if gname(k) in names:
            fail("methods %s and %s get the same generated name" % (k, names[gname(k)]), todo[k])
        names[gname(k)] = k
    sigs, order = analyse(todo, fail)
    for name in order:
        out.append(MethodTr(todo[name], sigs, path, opclasses, consts).translate())
    return record_and_setters() + "\n" + "\n".join(out)


def main():
    if len(sys.argv) != 3:
        print("usage: cache_tr.py <repo_dir> <output.v>")
        sys.exit(1)
    repo, out_path = sys.argv[1], sys.argv[2]
    try:
        txt = HEADER + "\n" + translate_class(repo)
    except (TranslationError, SyntaxError, OSError) as e:
        print("TRANSLATION-ERROR cache: %s" % e)
        sys.exit(1)
    try:
        old = open(out_path).read()
    except FileNotFoundError:
        old = None
    if old != txt:
        with open(out_path, "w") as f:
            f.write(txt)
        print("cache: regenerated", out_path)
    else:
        print("cache: unchanged")


if __name__ == "__main__":
    main()
