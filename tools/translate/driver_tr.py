#!/usr/bin/env python3
"""Translate the build driver of file_builder.py and the whole of file_backups.py into Gallina (Gen/DriverGen.v).

    python driver_tr.py <repo_dir> <output.v>

One definition `gen_bk_<method>` per method of FileBackups and `gen_fb_<method>` per method of FileBuilder that is in
the table SCOPE (the build driver; the other methods of FileBuilder are not generated), in the state+exception monad
`M` of Model/Monad.v over `world`.  The objects are the world: attributes are world fields (table `attrs`), the
executor / backups / builder objects are erased (kinds `executor`, `backups`, `builder`: a method call on them is a
call of a MODEL routine or of another generated routine, tables CALLS / STATIC_CALLS), os / tempfile / shutil calls
are primitives defined in the header of the output (tables OS_PURE / OS_MONADIC).  Fail-closed: any statement or
expression outside the shapes below ends the run with "TRANSLATION-ERROR driver: <file>:<line>: ..." and exit
status 1; nothing is written.  Deterministic: no sets or hashes are iterated.

Shape of a method.  `self` disappears; parameters are typed by name (tables `params` / `params_by_method`); erased
kinds (`rootargs` = the *args / **kwargs of the root function, `ignored`, the erased objects) are not parameters of
the generated routine.  `self._operation.<field>` is the extra parameter `operation_<field>` (the record under
construction is threaded explicitly).  The result is `M <kind>` (`unit` when nothing is returned).  A recursive
method (and every caller of one) takes `fuel : nat` first and raises the exception of table FUEL_EXN at 0.

Statements, in continuation-passing style (the code after an `if` / `try` is translated once per path: no joins;
`return` / `raise` / `continue` end the text of a path):
  docstrings, `logger.<level>(<literal>[.format(..)])`, `pass`      dropped
  `with self._lock:`                                               the body (locks dropped)
  x = <pure>                      let x := e in
  x = <call> / <boolean of calls> x <- m ;;                       (and / or / not of calls short-circuit in M)
  <call>                          m ;;;
  x.append(e) / s.add(e) / s.discard(e) / s.update(l)              let x := x ++ [e] / add_path e s / del_path e s / set_update s l in
  self.<attr> = e                 (modify (set_<field> e)) ;;;     (table attr_set; dropped attributes: nothing)
  raise C(<message>) / raise      raise (<EXC[C]>) / raise e_       (inside a handler)
  return e / return <call>        ret e / the call
  if <static constant>:           the live branch only             (`FileBuilder._IS_WINDOWS`, calls of constant methods)
  if <test with calls>:           r <- <test in M> ;; if r then A else B    (branches empty after dropping: _ <- test)
  if <pure>:                      if e then A else B               (branches empty after dropping: nothing)
  for v in <list>: BODY           a top-level Fixpoint over the list; the locals BODY changes are threaded through
                                  and returned; `continue` = next element; no return / break / nested loop in BODY
  while T: A; q = p; p = os.path.dirname(p); if p == q: raise E; B
                                  a top-level Fixpoint structural on p: `[]` raises E (dirname [] = []), `_ :: p'` runs B
  try: BODY except C1: H1 ...     every call of BODY becomes  r <- attempt call ;; match r with inl x => rest
                                  | inr e_ => if <test C1> e_ then H1 ... else <enclosing handlers / raise e_> end
                                  so a handler sees the locals as they are where the exception was raised; the code
                                  after the try statement follows BODY and every handler that falls through
  try: BODY finally: FIN          finally BODY FIN                 (last statement; BODY ends in return / raise)
  with FileBackups() as b: BODY   gen_bk_init ;;; gen_bk_enter ;;; finally BODY gen_bk_exit   (same conditions)
  the five statements that compute the backup slot from `_next_backup_index` (table SLOT_BLOCK): nothing; the two
  names they define have kind `slot` (the slot of the file named by the parameter `filename`)
A statement that reads the world (an attribute of self, os.path.isfile/isdir/exists) is preceded by
`w<i>_ <- get ;;` and reads that world.
"""
import ast
import os
import re
import sys

sys.dont_write_bytecode = True
sys.path.insert(0, os.path.dirname(os.path.abspath(__file__)))
from bookkeeping_tr import TranslationError, ind, self_attr, method_call  # noqa: E402

# ---- kinds of values and their Coq types ----
KTYPE = {"path": "path", "name": "name", "paths": "list path", "pathset": "list path", "names": "list name",
         "bool": "bool", "unit": "unit", "pyval": "pyval", "string": "string", "ostring": "option string",
         "cache": "cache", "bdirs": "bdirs", "body": "body", "node": "node", "fnode": "fnode", "slot": "path",
         "bkentries": "list (path * fnode)", "ocf": "option cfiles", "emptylist": "list _", "oop": "option op"}
ERASED = {"rootargs", "executor", "backups", "builder", "ignored"}
SUBKIND = {("pathset", "paths"), ("emptylist", "paths"), ("emptylist", "names"), ("emptylist", "pathset"),
           ("emptylist", "bkentries")}
ELEM = {"paths": "path", "pathset": "path", "names": "name", "bkentries": ("path", "fnode")}

# ---- the two classes ----
CLASSES = [
    dict(cls="FileBackups", file="file_backups.py", prefix="gen_bk_",
         scope=["__init__", "__enter__", "__exit__", "back_up_and_remove", "restore_all"],
         logonly=["_handle_remove_temp_dir_error"], external={}, consts={},
         params={"filename": "path", "exc_type": "ignored", "exc_value": "ignored", "traceback": "ignored"},
         params_by_method={},
         attrs={"_backups": ("w_backups", "bkentries")}, obj_attrs={},
         attr_set={"_backups": "(modify (set_backups {0}))"},
         # writes of attributes the model does not carry: (attribute, value as printed) -> primitive or None
         erased_set={("_next_backup_index", "0"): None, ("_temp_dir", "None"): None,
                     ("_temp_dir", "tempfile.mkdtemp(None, 'file_builder_')"): "m_mkdtemp",
                     ("_lock", "threading.Lock()"): None},
         stmt_calls={"shutil.rmtree(self._temp_dir, False, self._handle_remove_temp_dir_error)": "m_rmtree_tmp",
                     "self._backups.clear()": "(modify (set_backups []))"},
         locks={"_lock"}, op_fields={}, self_kind="backups"),
    dict(cls="FileBuilder", file="file_builder.py", prefix="gen_fb_",
         scope=["__init__", "build", "build_versioned", "clean", "_dirs_to_make", "_make_dirs", "_make_room",
                "_has_case", "_ensure_dir_case", "_ensure_dirs_case", "_try_to_remove_file",
                "_prepare_file_creation", "_remove_empty_dirs", "_create_dirs", "_set_created_dirs", "_commit",
                "_roll_back", "_build"],
         logonly=[],
         # methods of the class outside the scope that the scope calls: (term, argument kinds, kind, runs in M)
         external={"_sanitize_filename": ("{0}", ["path"], "path", False),
                   "_sanitize_versions": ("(sanitize_m {0})", ["pyval"], "pyval", True)},
         # class constants: name -> (definition as printed, term, kind, static value)
         consts={"_IS_WINDOWS": ("os.name == 'nt'", "false", "bool", False)},
         params={"cache_filename": "path", "build_name": "string", "versions": "pyval", "func": "body",
                 "args": "rootargs", "kwargs": "rootargs", "filename": "path", "dir_": "path", "dirs": "paths",
                 "created_files": "ocf", "make_room_filename": "path", "cache_file_created_dirs": "paths",
                 "norm_cased_error_created_dirs": "pathset", "operation": "oop", "old_cache": "cache",
                 "new_cache": "cache", "simple_operation_executor": "executor", "backups": "backups",
                 "build_dirs": "bdirs"},
         params_by_method={("clean", "build_name"): "ostring"},
         attrs={"_old_cache": ("w_old", "cache"), "_new_cache": ("w_new", "cache"), "_build_dirs": ("w_bd", "bdirs")},
         obj_attrs={"_simple_operation_executor": "executor", "_backups": "backups"},
         attr_set={"_old_cache": "(modify (set_old {0}))", "_new_cache": "(modify (set_new {0}))",
                   "_build_dirs": "(modify (set_bd {0}))"},
         erased_set={("_lock", "threading.Lock()"): None, ("_is_finished_build", "False"): None,
                     ("_is_finished_build", "True"): None, ("_operation", "<oop>"): None,
                     ("_simple_operation_executor", "<executor>"): None, ("_backups", "<backups>"): None},
         stmt_calls={}, locks={"_lock"}, op_fields={"filename": "path"}, self_kind="builder"),
]
# ---- calls on the objects: (receiver kind, method) -> (term, argument kinds, kind, runs in M, trailing defaults) ----
CALLS = {
    ("cache", "created_files"): ("(cache_created_files {recv})", [], "paths", False, []),
    ("cache", "created_dirs"): ("(c_dirs {recv})", [], "pathset", False, []),
    ("cache", "built_files"): ("(c_built {recv})", [], "paths", False, []),
    ("cache", "build_name"): ("(c_name {recv})", [], "string", False, []),
    ("cache", "created_norm_cased_file"): ("(cache_created_file {recv} {0})", ["path"], "bool", False, []),
    ("new_cache", "add_created_dirs"): ("(m_add_created_dirs {0})", ["paths"], "unit", True, []),
    ("new_cache", "write"): ("(m_write_cache {0})", ["path"], "unit", True, []),
    ("bdirs", "created_dirs"): ("(bd_created {recv})", [], "paths", False, []),
    ("bdirs", "norm_cased_error_created_dirs"): ("(bd_err_created {recv})", [], "pathset", False, []),
    ("executor", "is_dir"): ("(m_is_dir {0} {1})", ["path", "ocf"], "bool", True, ["None"]),
    ("executor", "is_file"): ("(m_is_file {0} {1})", ["path", "ocf"], "bool", True, ["None"]),
    ("executor", "is_cache_file"): ("(is_cache_file {0})", ["path"], "bool", True, []),
    ("backups", "back_up_and_remove"): ("(gen_bk_back_up_and_remove {0})", ["path"], "bool", True, []),
    ("backups", "restore_all"): ("gen_bk_restore_all", [], "unit", True, []),
}
# ---- constructors and static methods of other classes: name -> (term, argument kinds, kind, runs in M) ----
STATIC_CALLS = {
    "Cache.read_immutable": ("(m_read_cache {0})", ["path"], "cache", True),
    "Cache.create_empty_immutable": ("(empty_cache {0} {1})", ["string", "pyval"], "cache", False),
    "Cache.create_empty_mutable": ("(empty_cache {0} {1})", ["string", "pyval"], "cache", False),
    "BuildDirs": ("(bd_init {0} {1})", ["paths", "paths"], "bdirs", False),
    "SimpleOperationExecutor": ("(modify (gen_ex_init {0} {1} {2} {3}))", ["path", "cache", "cache", "bdirs"], "executor", True),
    "FileBuilder": ("(gen_fb_init {0} {1} {2} {5})", ["oop", "cache", "cache", "executor", "backups", "bdirs"], "builder", True),
}
CONTEXT_MANAGERS = {"FileBackups()": ("backups", "gen_bk_init", "gen_bk_enter", "gen_bk_exit")}
# ---- the user's root function: call as printed (F, A, K = the parameters of kind body / rootargs) ----
CALLBACKS = {"{F}(*(self,) + {A}, **{K})": ("(call_root {F})", "pyval")}
# ---- primitives: os / os.path calls, by name and argument kinds ----
OS_PURE = {   # (name, kinds) -> (term, kind, reads the world)
    ("os.path.dirname", ("path",)): ("(dirname {0})", "path", False),
    ("os.path.join", ("path", "name")): ("({1} :: {0})", "path", False),
    ("os.path.isfile", ("path",)): ("(isfile (w_fs {w}) {0})", "bool", True),
    ("os.path.isdir", ("path",)): ("(isdir (w_fs {w}) {0})", "bool", True),
    ("os.path.exists", ("path",)): ("(lexists (w_fs {w}) {0})", "bool", True),
    ("os.path.isdir", ("node",)): ("(st_isdir {0})", "bool", False),
}
OS_MONADIC = {   # (name, kinds, keywords as printed) -> (term, kind, index of the argument rebound to the result)
    ("os.mkdir", ("path",), ""): ("(m_mkdir {0})", "unit", None),
    ("os.rmdir", ("path",), ""): ("(m_rmdir {0})", "unit", None),
    ("os.remove", ("path",), ""): ("(m_remove {0})", "unit", None),
    ("os.listdir", ("path",), ""): ("(m_listdir {0})", "names", None),
    ("os.makedirs", ("path",), "exist_ok=True"): ("(m_makedirs_p {0})", "unit", None),
    ("os.makedirs", ("slot",), "exist_ok=True"): ("(m_makedirs_tmp {0})", "unit", None),
    ("os.rename", ("path", "slot"), ""): ("(m_rename_out {0})", "node", 1),
    ("os.replace", ("fnode", "path"), ""): ("(m_replace {1} {0})", "unit", None),
}
TUPLE_APPEND = {("bkentries", ("path", "node")): "(bk_append {0} {1})"}
# ---- exceptions ----
EXC = {"FileNotFoundError": "XOS XFileNotFound", "NotADirectoryError": "XOS XNotADirectory",
       "IsADirectoryError": "XOS XIsADirectory", "FileExistsError": "XOS XFileExists", "TypeError": "XType"}
RUNTIME = {"The cache file was created for the build named {:s}, which is different from the specified build name {:s}": "RBuildName"}
EXC_TEST = {"FileNotFoundError": "is_os_class XFileNotFound", "NotADirectoryError": "is_os_class XNotADirectory",
            "IsADirectoryError": "is_os_class XIsADirectory", "FileExistsError": "is_os_class XFileExists",
            "OSError": "is_os", "Exception": "is_exception"}
FUEL_EXN = {"_make_room": 'XCrash "make_room fuel"'}
LOG_LEVELS = {"debug", "info", "warning", "error"}
# ---- sorted(l, key=lambda v: K): K as printed with the variable renamed v -> the key in Z ----
SORT_KEYS = {"-len(v)": "(Z.opp (Z.of_nat (plen {0})))", "len(v)": "(Z.of_nat (plen {0}))"}
# ---- the computation of the backup slot (FileBackups.back_up_and_remove), as printed ----
SLOT_BLOCK = ("with self._lock:\n    {V} = self._next_backup_index\n    self._next_backup_index += 1\n"
              "{C} = []\nwhile {V} >= 128:\n    {C}.append('{{:02x}}'.format({V} % 128))\n    {V} //= 128\n"
              "{D} = os.path.join(self._temp_dir, *{C})\n{F} = os.path.join({D}, 'file_{{:02x}}'.format({V}))")
SLOT_FOR = "filename"
MODULE_ASSIGNS = {"logger = logging.getLogger(__name__)"}

RESERVED = {"name", "path", "get", "put", "ret", "raise", "bind", "catch", "attempt", "finally", "modify", "fuel",
            "fuel'", "self_rec", "xs", "xs'", "tt", "true", "false", "Some", "None", "isfile", "isdir", "lexists",
            "lookup", "listdir", "dirname", "w", "in", "end", "at", "fun", "fix", "let", "match", "with", "if",
            "then", "else", "return", "as", "exists", "forall", "world", "node", "fnode", "cache", "op", "map", "fst",
            "snd", "negb", "rev", "body", "bdirs", "effect", "mkdir", "rmdir", "remove", "string", "bool", "unit",
            "list", "option", "nat", "M", "S", "O", "andb", "orb", "app", "inl", "inr", "plen", "mem_path",
            "add_path", "del_path", "path_eqb", "is_os", "is_os_class", "is_exception", "pyval", "exn"}


def cname(n):
    return n + "_py" if (n in RESERVED or n.startswith(("gen_", "m_", "w_", "c_", "bd_", "set_", "operation_"))
                         or re.fullmatch(r"[a-z]+\d+_", n)) else n


class T:
    """A translated pure expression: Coq text + kind; .const = static value of a boolean; .tl_of = (text of q,
    is_root) for p after `q = p; p = os.path.dirname(p)`; .some = variable when an option is known to be Some."""
    def __init__(self, txt, kind, const=None, tl_of=None, some=None):
        self.txt, self.kind, self.const, self.tl_of, self.some = txt, kind, const, tl_of, some


class Sig:
    def __init__(self):
        self.allparams, self.params, self.static, self.retkind, self.has_value = [], [], False, None, False
        self.calls, self.rec, self.fueled, self.const, self.opfields, self.vararg, self.kwarg = set(), False, False, None, [], None, None


def is_none(e):
    return isinstance(e, ast.Constant) and e.value is None


def is_doc(s):
    return isinstance(s, ast.Expr) and isinstance(s.value, ast.Constant) and isinstance(s.value.value, str)


def is_logger(s):
    e = s.value if isinstance(s, ast.Expr) else None
    return (isinstance(e, ast.Call) and isinstance(e.func, ast.Attribute) and isinstance(e.func.value, ast.Name)
            and e.func.value.id == "logger" and e.func.attr in LOG_LEVELS)


class ClassTr:
    def __init__(self, ci, repo, world):
        self.ci, self.world_of = ci, world          # world_of: class name -> ClassTr (for calls across classes)
        self.path = os.path.join(repo, "file_builder", ci["file"])
        self.methods, self.sigs = {}, {}

    def fail(self, msg, node):
        raise TranslationError("%s:%d: %s" % (self.path, getattr(node, "lineno", 0), msg))

    def load(self):
        ci = self.ci
        tree = ast.parse(open(self.path).read(), self.path)
        classes = [n for n in tree.body if isinstance(n, ast.ClassDef)]
        for n in tree.body:
            if isinstance(n, (ast.ClassDef, ast.Import, ast.ImportFrom)):
                continue
            if isinstance(n, ast.Assign) and ast.unparse(n) in MODULE_ASSIGNS:
                continue
            self.fail("module-level statement", n)
        if len(classes) != 1 or classes[0].name != ci["cls"] or classes[0].bases or classes[0].decorator_list:
            self.fail("expected exactly the class %s" % ci["cls"], tree.body[0])
        seen_consts = set()
        for n in classes[0].body:
            if is_doc(n):
                continue
            if isinstance(n, ast.Assign) and len(n.targets) == 1 and isinstance(n.targets[0], ast.Name):
                c = n.targets[0].id
                if c in ci["consts"] and c not in seen_consts and ast.unparse(n.value) == ci["consts"][c][0]:
                    seen_consts.add(c)
                    continue
                self.fail("class constant %s is not in the table consts with this definition" % c, n)
            if not isinstance(n, ast.FunctionDef) or n.name in self.methods:
                self.fail("class member other than a method or a constant", n)
            self.methods[n.name] = n
        for c in ci["consts"]:
            if c not in seen_consts:
                self.fail("no class constant %s" % c, classes[0])
        for m in ci["scope"] + ci["logonly"] + list(ci["external"]):
            if m not in self.methods:
                self.fail("no method %s" % m, classes[0])
        for m in ci["logonly"]:
            for s in self.methods[m].body:
                if not (is_doc(s) or is_logger(s)):
                    self.fail("%s does something other than logging" % m, s)

    def param_kind(self, m, p, node):
        k = self.ci["params_by_method"].get((m, p), self.ci["params"].get(p))
        if k is None:
            self.fail("parameter %r of %s is not in the table params" % (p, m), node)
        return k

    def scope_call(self, e):
        """e calls a method of this class: self.m(..) / <Class>.m(..) -> name"""
        f = e.func if isinstance(e, ast.Call) else None
        if isinstance(f, ast.Attribute) and isinstance(f.value, ast.Name) and f.value.id in ("self", self.ci["cls"]):
            return f.attr
        return None

    def analyse(self):
        ci = self.ci
        for name in ci["scope"]:
            fn, g = self.methods[name], Sig()
            self.sigs[name] = g
            decs = [ast.unparse(d) for d in fn.decorator_list]
            if decs not in ([], ["staticmethod"]):
                self.fail("decorator", fn)
            g.static = decs == ["staticmethod"]
            a = fn.args
            if a.kwonlyargs or a.posonlyargs or a.defaults or fn.returns is not None:
                self.fail("parameter list", fn)
            ps = [x.arg for x in a.args]
            if not g.static:
                if ps[:1] != ["self"]:
                    self.fail("parameter list", fn)
                ps = ps[1:]
            g.allparams = [(p, self.param_kind(name, p, fn)) for p in ps]
            for va, attr in ((a.vararg, "vararg"), (a.kwarg, "kwarg")):
                if va is not None:
                    if self.param_kind(name, va.arg, fn) != "rootargs":
                        self.fail("*%s is not of kind rootargs" % va.arg, fn)
                    setattr(g, attr, va.arg)
            g.params = [(p, k) for p, k in g.allparams if k not in ERASED]
            for n in ast.walk(fn):
                if isinstance(n, (ast.FunctionDef, ast.ClassDef, ast.AsyncFunctionDef)) and n is not fn:
                    self.fail("nested definition", n)
                if isinstance(n, ast.Call):
                    c = self.scope_call(n)
                    if c is None and isinstance(n.func, ast.Attribute) and isinstance(n.func.value, ast.Name) \
                            and n.func.attr in ci["scope"] and n.func.value.id not in ("self", "os", "logger"):
                        c = n.func.attr           # <local builder>.m(..): checked when translated
                    if c in ci["scope"]:
                        g.calls.add(c)
                if (isinstance(n, ast.Attribute) and self_attr(n.value) == "_operation" and ci["op_fields"]):
                    if n.attr not in ci["op_fields"]:
                        self.fail("self._operation.%s is not in the table op_fields" % n.attr, n)
                    if n.attr not in g.opfields:
                        g.opfields.append(n.attr)
                if isinstance(n, ast.Return) and n.value is not None and not (isinstance(n.value, ast.Name) and n.value.id == "self"):
                    g.has_value = True
            g.params = [("operation_" + f, ci["op_fields"][f]) for f in g.opfields] + g.params
            g.rec = g.fueled = name in g.calls
            if g.rec and name not in FUEL_EXN:
                self.fail("recursive method without an entry in FUEL_EXN", fn)
            if not g.has_value:
                g.retkind = "unit"
            if g.rec and g.retkind is None:
                self.fail("recursive method that returns a value", fn)
        changed = True
        while changed:
            changed = False
            for name in ci["scope"]:
                g = self.sigs[name]
                if not g.fueled and any(self.sigs[c].fueled for c in g.calls):
                    g.fueled = changed = True
        order, state = [], {}
        def visit(name):
            if state.get(name) == 1:
                self.fail("mutual recursion through %s" % name, self.methods[name])
            if name in state:
                return
            state[name] = 1
            for c in [m for m in ci["scope"] if m in self.sigs[name].calls and m != name]:
                visit(c)
            state[name] = 2
            order.append(name)
        for name in ci["scope"]:
            visit(name)
        return order

    def run(self):
        self.load()
        out = []
        for name in self.analyse():
            out.append(MethodTr(self, name).translate())
        return "\n".join(out)


def gen_name(ci, m):
    """`_m` is gen_<m>, or gen_priv_<m> when the class also has a public `m` in the scope"""
    special = {"__init__": "init", "__enter__": "enter", "__exit__": "exit"}
    if m not in special and m.startswith("_") and m.strip("_") in ci["scope"]:
        return ci["prefix"] + "priv_" + m.strip("_")
    return ci["prefix"] + special.get(m, m.strip("_"))


class MethodTr:
    def __init__(self, ct, name):
        self.ct, self.ci, self.fn, self.sigs = ct, ct.ci, ct.methods[name], ct.sigs
        self.sig = ct.sigs[name]
        self.gname = gen_name(ct.ci, name)
        self.aux, self.nloops, self.nfresh = [], 0, 0
        self.in_pure, self.wv = False, None
        self.stack, self.exc_var = [], None            # enclosing try statements (innermost last); handler's exception
        self.loop = None                               # innermost loop being translated: dict(again, carried, free)
        self.loops = {}
        self.no_return = False                         # inside `finally:` / a loop body
        self.aliased = set()                           # list attributes a local has been bound to

    def fail(self, msg, node):
        self.ct.fail(msg, node)

    def fresh(self, base):
        self.nfresh += 1
        return "%s%d_" % (base, self.nfresh)

    # ================= pure expressions =================
    def world(self, node):
        if not self.in_pure:
            self.fail("internal: world read outside a statement", node)
        if self.wv is None:
            self.wv = self.fresh("w")
        return self.wv

    def pure(self, f):
        """run f() (which translates pure expressions of one statement) -> (`w <- get ;;` if they read the world, result)"""
        saved = (self.in_pure, self.wv)
        self.in_pure, self.wv = True, None
        r = f()
        pre = "%s <- get ;;\n" % self.wv if self.wv else ""
        self.in_pure, self.wv = saved
        return pre, r

    def want(self, t, kind, node):
        if t.kind == kind or (t.kind, kind) in SUBKIND:
            return t if t.kind == kind else T(t.txt, kind, some=t.some)
        self.fail("expected %s, found %s (%s)" % (kind, t.kind, t.txt), node)

    def receiver(self, e, env, node, attr):
        """receiver of a method call -> (kind, Coq text) or None"""
        a = self_attr(e)
        if a == "_new_cache" and ("new_cache", attr) in CALLS:      # acts on w_new itself
            return "new_cache", "", "cache"
        if a in self.ci["attrs"]:
            proj, kind = self.ci["attrs"][a]
            return kind, "(%s %s)" % (proj, self.world(node)), kind
        if a in self.ci["obj_attrs"]:
            return self.ci["obj_attrs"][a], "", self.ci["obj_attrs"][a]
        if isinstance(e, ast.Name) and e.id in env and env[e.id].kind in ("cache", "bdirs", "executor", "backups"):
            return env[e.id].kind, env[e.id].txt, env[e.id].kind
        return None

    def expr(self, e, env):
        if isinstance(e, ast.Constant) and isinstance(e.value, bool):
            return T("true" if e.value else "false", "bool", const=e.value)
        if isinstance(e, ast.Name):
            if e.id not in env:
                self.fail("unknown or no longer valid name %r" % e.id, e)
            return env[e.id]
        if isinstance(e, ast.List) and not e.elts:
            return T("[]", "emptylist")
        if isinstance(e, ast.List) and len(e.elts) == 1:
            return T("[%s]" % self.want(self.expr(e.elts[0], env), "path", e).txt, "paths")
        if isinstance(e, ast.Dict) and not e.keys:
            return T("(PDict [])", "pyval")
        if isinstance(e, ast.UnaryOp) and isinstance(e.op, ast.Not):
            a = self.want(self.expr(e.operand, env), "bool", e)
            if a.const is not None:
                return T("false" if a.const else "true", "bool", const=not a.const)
            return T("(negb %s)" % a.txt, "bool")
        if isinstance(e, ast.BoolOp):
            return self.boolop(e, env)
        if isinstance(e, ast.Compare) and len(e.ops) == 1:
            return self.compare(e, e.ops[0], e.left, e.comparators[0], env)
        if isinstance(e, ast.BinOp) and isinstance(e.op, ast.Add):
            a, b = self.expr(e.left, env), self.expr(e.right, env)
            self.want(a, "paths", e), self.want(b, "paths", e)
            return T("(%s ++ %s)" % (a.txt, b.txt), "paths")
        if isinstance(e, ast.Attribute):
            a = self_attr(e)
            if a in self.ci["attrs"]:
                return T("(%s %s)" % (self.ci["attrs"][a][0], self.world(e)), self.ci["attrs"][a][1])
            if self_attr(e.value) == "_operation" and e.attr in self.ci["op_fields"]:
                return T("operation_" + e.attr, self.ci["op_fields"][e.attr])
            if isinstance(e.value, ast.Name) and e.value.id == self.ci["cls"] and e.attr in self.ci["consts"]:
                _, txt, kind, val = self.ci["consts"][e.attr]
                return T(txt, kind, const=val)
        if isinstance(e, ast.Call):
            t = self.pcall(e, env)
            if t is not None:
                return t
        self.fail("expression %s" % ast.unparse(e)[:70], e)

    def boolop(self, e, env):
        isand = isinstance(e.op, ast.And)
        f = e.values[0]
        # `x is not None and REST` / `x is None or REST` on an option: a match that makes x known in REST
        if (isinstance(f, ast.Compare) and len(f.ops) == 1 and is_none(f.comparators[0]) and isinstance(f.left, ast.Name)
                and isinstance(f.ops[0], ast.IsNot if isand else ast.Is) and f.left.id in env
                and env[f.left.id].kind == "ostring" and not env[f.left.id].some):
            x = f.left.id
            c = self.fresh("c")
            env2 = dict(env)
            env2[x] = T("(Some %s)" % c, "ostring", some=c)
            rest = e.values[1:]
            r = self.want(self.expr(rest[0] if len(rest) == 1 else ast.BoolOp(e.op, rest), env2), "bool", e)
            return T("(match %s with None => %s | Some %s => %s end)" % (
                env[x].txt, "false" if isand else "true", c, r.txt), "bool")
        xs = []
        for v in e.values:
            t = self.want(self.expr(v, env), "bool", e)
            if t.const is not None:
                if t.const != isand:                   # `True or ..` / `False and ..`: the rest is never evaluated
                    if not xs:
                        return T("true" if t.const else "false", "bool", const=t.const)
                    xs.append(t.txt)
                    break
                continue                               # neutral element
            xs.append(t.txt)
        if not xs:
            return T("true" if isand else "false", "bool", const=isand)
        r = xs[-1]
        for x in reversed(xs[:-1]):
            r = "(%s %s %s)" % ("andb" if isand else "orb", x, r)
        return T(r, "bool")

    def compare(self, e, op, l, r, env):
        if isinstance(op, (ast.In, ast.NotIn)):
            a, c = self.want(self.expr(l, env), "path", e), self.want(self.expr(r, env), "paths", e)
            txt = "(mem_path %s %s)" % (a.txt, c.txt)
            return T(txt if isinstance(op, ast.In) else "(negb %s)" % txt, "bool")
        if isinstance(op, (ast.Eq, ast.NotEq)):
            a, b = self.expr(l, env), self.expr(r, env)
            if a.tl_of and a.tl_of[0] == b.txt:         # p == q after q = p; p = os.path.dirname(p): p is [] or a tail
                v = a.tl_of[1] == isinstance(op, ast.Eq)
                return T("true" if v else "false", "bool", const=v)
            if a.kind == "ostring" and a.some:
                a = T(a.some, "string")
            if b.kind == "ostring" and b.some:
                b = T(b.some, "string")
            fn = {"path": "path_eqb", "string": "String.eqb"}.get(a.kind)
            if fn is None or b.kind != a.kind:
                self.fail("comparison of a %s with a %s" % (a.kind, b.kind), e)
            txt = "(%s %s %s)" % (fn, a.txt, b.txt)
            return T(txt if isinstance(op, ast.Eq) else "(negb %s)" % txt, "bool")
        self.fail("comparison %s" % ast.unparse(e)[:70], e)

    def args_of(self, args, kinds, env, node, defaults=()):
        args = list(args)
        if len(args) < len(kinds) and len(kinds) - len(args) <= len(defaults):
            missing = len(kinds) - len(args)
            dflt = list(defaults)[len(defaults) - missing:]
        else:
            dflt = []
        if len(args) + len(dflt) != len(kinds):
            self.fail("arity of %s" % ast.unparse(node.func)[:50], node)
        ts = []
        for a, k in zip(args, kinds):
            if is_none(a) and k in ("ocf", "oop"):
                ts.append("None")
            elif k in ERASED:
                if not (isinstance(a, ast.Name) and a.id in env and env[a.id].kind == k):
                    self.fail("argument of kind %s" % k, node)
                ts.append("")
            else:
                ts.append(self.want(self.expr(a, env), k, node).txt)
        return ts + dflt

    def pcall(self, e, env):
        """a call that is a pure expression -> T, or None"""
        name = ast.unparse(e.func)
        if e.keywords and name != "sorted":
            return None
        if name == "os.path.normcase" and len(e.args) == 1:           # POSIX: identity
            return self.expr(e.args[0], env)
        if name in {n for n, _ in OS_PURE}:
            ts = [self.expr(a, env) for a in e.args]
            ent = OS_PURE.get((name, tuple(t.kind for t in ts)))
            if ent is None:
                self.fail("%s on %s" % (name, ", ".join(t.kind for t in ts)), e)
            fmt, kind, reads = ent
            return T(fmt.format(*[t.txt for t in ts], w=self.world(e) if reads else ""), kind)
        if name == "isinstance" and len(e.args) == 2 and ast.unparse(e.args[1]) == "str":
            t = self.expr(e.args[0], env)
            if t.kind == "string" or (t.kind == "ostring" and t.some):
                return T("true", "bool", const=True)
            self.fail("isinstance(<%s>, str)" % t.kind, e)
        if name == "callable" and len(e.args) == 1 and self.expr(e.args[0], env).kind == "body":
            return T("true", "bool", const=True)
        if name == "set" and len(e.args) == 1:
            c = e.args[0]
            if (isinstance(c, ast.ListComp) and len(c.generators) == 1 and not c.generators[0].ifs
                    and not c.generators[0].is_async and isinstance(c.generators[0].target, ast.Name)):
                elt = c.elt                                   # set([os.path.normcase(x) for x in L]) = set(L)
                if isinstance(elt, ast.Call) and ast.unparse(elt.func) == "os.path.normcase" and len(elt.args) == 1:
                    elt = elt.args[0]
                if not (isinstance(elt, ast.Name) and elt.id == c.generators[0].target.id):
                    self.fail("set comprehension %s" % ast.unparse(c)[:60], e)
                c = c.generators[0].iter
            t = self.expr(c, env)
            if t.kind == "pathset":                           # made from a set: duplicate-free
                return t
            return T("(set_of_paths %s)" % self.want(t, "paths", e).txt, "pathset")
        if name == "list" and len(e.args) == 1:
            c = e.args[0]
            if isinstance(c, ast.Call) and ast.unparse(c.func) == "reversed" and len(c.args) == 1 and not c.keywords:
                return T("(rev %s)" % self.want(self.expr(c.args[0], env), "paths", e).txt, "paths")
            t = self.expr(c, env)
            if t.kind in ("pathset", "paths"):
                return t
            self.fail("list(<%s>)" % t.kind, e)
        if name == "sorted" and len(e.args) == 1 and len(e.keywords) == 1 and e.keywords[0].arg == "key":
            lam = e.keywords[0].value
            if isinstance(lam, ast.Lambda) and len(lam.args.args) == 1 and not lam.args.defaults:
                v = lam.args.args[0].arg
                body = ast.unparse(ast.parse(re.sub(r"\b%s\b" % re.escape(v), "v", ast.unparse(lam.body))))
                if body in SORT_KEYS:
                    l = self.want(self.expr(e.args[0], env), "paths", e)
                    key = SORT_KEYS[body]
                    return T("(sort_by (fun a_ b_ => Z.leb %s %s) %s)" % (key.format("a_"), key.format("b_"), l.txt), "paths")
            self.fail("sorted with a key that is not in the table SORT_KEYS", e)
        if name in STATIC_CALLS and not STATIC_CALLS[name][3]:
            fmt, kinds, kind, _ = STATIC_CALLS[name]
            return T(fmt.format(*self.args_of(e.args, kinds, env, e)), kind)
        m = self.ct.scope_call(e)
        if m in self.ci["external"] and not self.ci["external"][m][3]:
            fmt, kinds, kind, _ = self.ci["external"][m]
            return T(fmt.format(*self.args_of(e.args, kinds, env, e)), kind)
        if m in self.sigs and self.sigs[m].const is not None:       # a method whose body is `return <constant>`
            h = self.sigs[m]
            self.args_of(e.args, [k for _, k in h.allparams], env, e)
            return T("true" if h.const else "false", "bool", const=h.const)
        mc = method_call(e)
        if mc:
            rk = self.receiver(mc[0], env, e, mc[1])
            if rk and (rk[0], mc[1]) in CALLS and not CALLS[(rk[0], mc[1])][3]:
                fmt, kinds, kind, _, dflt = CALLS[(rk[0], mc[1])]
                return T(fmt.format(*self.args_of(mc[2], kinds, env, e, dflt), recv=rk[1]), kind)
        return None

    # ================= calls in the monad =================
    def mcall(self, e, env):
        """e is a call that runs in M -> (prefix, Coq text, kind, name of the local rebound to the result or None)"""
        if not isinstance(e, ast.Call):
            return None
        pre, r = self.pure(lambda: self.mcall_(e, env))
        if r is None:
            return None
        return (pre,) + r

    def mcall_(self, e, env):
        name = ast.unparse(e.func)
        kw = ", ".join(ast.unparse(k) for k in e.keywords)
        if name in {n for n, _, _ in OS_MONADIC}:
            ts = [self.expr(a, env) for a in e.args]
            ent = OS_MONADIC.get((name, tuple(t.kind for t in ts), kw))
            if ent is None:
                self.fail("%s(%s%s)" % (name, ", ".join(t.kind for t in ts), ", " + kw if kw else ""), e)
            fmt, kind, out = ent
            outvar = None
            if out is not None:
                if not isinstance(e.args[out], ast.Name):
                    self.fail("argument %d of %s is not a local" % (out, name), e)
                outvar = e.args[out].id
            return fmt.format(*[t.txt for t in ts]), kind, outvar
        if e.keywords and not any(k.arg is None for k in e.keywords):
            return None
        for pat, (fmt, kind) in CALLBACKS.items():           # the user's function
            if isinstance(e.func, ast.Name) and e.func.id in env and env[e.func.id].kind == "body":
                ra = [p for p, k in self.sig.allparams if k == "rootargs"] + [x for x in (self.sig.vararg, self.sig.kwarg) if x]
                if len(ra) == 2 and ast.unparse(e) == pat.format(F=e.func.id, A=ra[0], K=ra[1]):
                    return fmt.format(F=env[e.func.id].txt), kind, None
                self.fail("call of the user's function other than %s" % pat, e)
        if name in STATIC_CALLS and STATIC_CALLS[name][3] and not e.keywords:
            fmt, kinds, kind, _ = STATIC_CALLS[name]
            return fmt.format(*self.args_of(e.args, kinds, env, e)), kind, None
        m = self.ct.scope_call(e)
        if m is None and isinstance(e.func, ast.Attribute) and isinstance(e.func.value, ast.Name) \
                and e.func.value.id in env and env[e.func.value.id].kind == self.ci["self_kind"]:
            m = e.func.attr                                   # <local builder>.m(..)
        if m in self.ci["external"] and self.ci["external"][m][3] and not e.keywords:
            fmt, kinds, kind, _ = self.ci["external"][m]
            return fmt.format(*self.args_of(e.args, kinds, env, e)), kind, None
        if m in self.sigs and self.sigs[m].const is None:
            return self.scope_mcall(m, e, env)
        mc = method_call(e)
        if mc:
            rk = self.receiver(mc[0], env, e, mc[1])
            if rk and (rk[0], mc[1]) in CALLS and CALLS[(rk[0], mc[1])][3]:
                fmt, kinds, kind, _, dflt = CALLS[(rk[0], mc[1])]
                return fmt.format(*self.args_of(mc[2], kinds, env, e, dflt), recv=rk[1]), kind, None
        return None

    def scope_mcall(self, m, e, env):
        h = self.sigs[m]
        args, stars = [], []
        for a in e.args:
            (stars if isinstance(a, ast.Starred) else args).append(a)
        kws = [k for k in e.keywords]
        # *args / **kwargs are passed on only as the method's own, to a callee that has them
        if stars or kws:
            ok = (len(stars) == 1 and len(kws) == 1 and kws[0].arg is None and h.vararg and h.kwarg
                  and isinstance(stars[0].value, ast.Name) and isinstance(kws[0].value, ast.Name)
                  and env.get(stars[0].value.id) and env[stars[0].value.id].kind == "rootargs"
                  and env.get(kws[0].value.id) and env[kws[0].value.id].kind == "rootargs")
            if not ok:
                self.fail("starred arguments", e)
        elif h.vararg or h.kwarg:
            self.fail("call of %s without its *args / **kwargs" % m, e)
        ts = self.args_of(args, [k for _, k in h.allparams], env, e)
        ts = [t for t, (_, k) in zip(ts, h.allparams) if k not in ERASED]
        if h.opfields:
            self.fail("call of %s, which reads self._operation" % m, e)
        if h.retkind is None:
            self.fail("result kind of %s is not known yet" % m, e)
        if h is self.sig:
            head = "self_rec" if self.loop else "%s fuel'" % self.gname
        else:
            head = gen_name(self.ci, m) + (" fuel" if h.fueled else "")
        return ("(%s %s)" % (head, " ".join(ts)) if ts else head), h.retkind, None

    def has_mcall(self, e, env):
        """does evaluating e run something in M?"""
        if isinstance(e, ast.BoolOp):
            return any(self.has_mcall(v, env) for v in e.values)
        if isinstance(e, ast.UnaryOp) and isinstance(e.op, ast.Not):
            return self.has_mcall(e.operand, env)
        if isinstance(e, ast.Call):
            saved = (self.in_pure, self.wv, self.nfresh)
            self.in_pure, self.wv = True, None
            try:
                return self.mcall_(e, env) is not None
            finally:
                self.in_pure, self.wv, self.nfresh = saved
        return False

    def mbool(self, e, env):
        """a boolean expression that may contain calls -> Coq text of type M bool (and / or short-circuit)"""
        if isinstance(e, ast.UnaryOp) and isinstance(e.op, ast.Not) and self.has_mcall(e, env):
            r = self.fresh("r")
            return "(%s <- %s ;; ret (negb %s))" % (r, self.mbool(e.operand, env), r)
        if isinstance(e, ast.BoolOp) and self.has_mcall(e, env):
            isand = isinstance(e.op, ast.And)
            # the leading operands without calls are one pure test
            i = 0
            while not self.has_mcall(e.values[i], env):
                i += 1
            rest = e.values[i:]
            tail = self.mbool(rest[-1], env)
            for v in reversed(rest[:-1]):
                r = self.fresh("r")
                a = self.mbool(v, env)
                tail = ("(%s <- %s ;;\n if %s then\n%s\n else ret false)" if isand else
                        "(%s <- %s ;;\n if %s then ret true else\n%s)") % (r, a, r, ind(tail, 3))
            if i:
                lead = e.values[0] if i == 1 else ast.BoolOp(e.op, e.values[:i])
                pre, t = self.pure(lambda: self.want(self.expr(lead, env), "bool", e))
                if t.const is not None:
                    return tail if t.const == isand else "(ret %s)" % t.txt
                tail = ("(%sif %s then\n%s\n else ret false)" if isand else
                        "(%sif %s then ret true else\n%s)") % (pre, t.txt, ind(tail, 3))
            return tail
        c = self.mcall(e, env)
        if c:
            pre, call, kind, out = c
            if kind != "bool" or out:
                self.fail("a call that does not return bool inside a test", e)
            return "(%s%s)" % (pre, call) if pre else call
        pre, t = self.pure(lambda: self.want(self.expr(e, env), "bool", e))
        return "(%sret %s)" % (pre, t.txt)

    # ================= statements, in continuation-passing style: k(env) is the text of what follows =================
    def bindm(self, pre, m, var, env, k, raw=False):
        """run m, bind its result to var (None: drop it), continue with k(); inside `try` the failure goes to the handlers"""
        if raw or not self.stack:
            return "%s%s ;;;\n%s" % (pre, m, k()) if var is None else "%s%s <- %s ;;\n%s" % (pre, var, m, k())
        r, ev = self.fresh("r"), self.fresh("e")
        body = k()
        return "%s%s <- attempt %s ;;\n(match %s with\n | inl %s =>\n%s\n | inr %s =>\n%s\n end)" % (
            pre, r, m, r, var or "_", ind(body, 4), ev, ind(self.handle(self.stack, ev, env), 4))

    def handle(self, stack, ev, env):
        """text that handles the exception held by the Coq variable ev, raised where the locals are env"""
        if not stack:
            return "raise %s" % ev
        top, rest = stack[-1], stack[:-1]
        txt = self.handle(rest, ev, env)
        for test, h in reversed(top["handlers"]):
            saved = (self.stack, self.exc_var)
            self.stack, self.exc_var = rest, ev
            body = self.block(h.body, env, top["k_after"])
            self.stack, self.exc_var = saved
            txt = "(if %s %s then\n%s\n else\n%s)" % (test, ev, ind(body, 4), ind(txt, 4))
        return txt

    def do_raise(self, exc, env):
        if not self.stack:
            return "raise %s" % exc
        ev = self.fresh("e")
        return "let %s := %s in\n%s" % (ev, exc, self.handle(self.stack, ev, env))

    def block(self, stmts, env, k):
        stmts = [s for s in stmts if not (is_doc(s) or isinstance(s, ast.Pass))]
        if not stmts:
            return k(env)
        slot = self.slot_block(stmts, env)
        if slot:
            return self.block(stmts[5:], slot, k)
        return self.stmt(stmts[0], env, stmts[1:], lambda env2: self.block(stmts[1:], env2, k))

    def slot_block(self, stmts, env):
        """the statements that compute the backup slot -> the environment with the two names it defines"""
        s0 = stmts[0]
        if not (isinstance(s0, ast.With) and "_next_backup_index" in ast.unparse(s0)):
            return None
        try:
            v = s0.body[0].targets[0].id
            c, d, f = stmts[1].targets[0].id, stmts[3].targets[0].id, stmts[4].targets[0].id
        except (AttributeError, IndexError):
            self.fail("self._next_backup_index outside the block that computes the backup slot", s0)
        names = {v, c, d, f}
        if ("\n".join(ast.unparse(s) for s in stmts[:5]) != SLOT_BLOCK.format(V=v, C=c, D=d, F=f) or len(names) != 4
                or names & set(env) or SLOT_FOR not in env or env[SLOT_FOR].kind != "path"):
            self.fail("self._next_backup_index outside the block that computes the backup slot", s0)
        env2 = dict(env)
        env2[d] = env2[f] = T(env[SLOT_FOR].txt, "slot")
        return env2

    def check_message(self, a, env, node):
        """an exception / log message: a literal, possibly formatted with pure expressions; not modelled"""
        if isinstance(a, ast.Constant) and isinstance(a.value, str):
            return a.value
        if (isinstance(a, ast.Call) and isinstance(a.func, ast.Attribute) and a.func.attr == "format"
                and isinstance(a.func.value, ast.Constant) and isinstance(a.func.value.value, str) and not a.keywords):
            for y in a.args:
                self.pure(lambda: self.expr(y, env))
            return a.func.value.value
        self.fail("message %s" % ast.unparse(a)[:60], node)

    def stmt(self, s, env, rest, k):
        if is_logger(s):
            e = s.value
            if len(e.args) != 1 or any(kw.arg != "exc_info" for kw in e.keywords):
                self.fail("logging call %s" % ast.unparse(e)[:60], s)
            self.check_message(e.args[0], env, s)
            return k(env)
        if isinstance(s, ast.With):
            return self.stmt_with(s, env, rest, k)
        if isinstance(s, (ast.Return, ast.Raise, ast.Continue)) and rest:
            self.fail("dead code after return / raise / continue", rest[0])
        if isinstance(s, ast.Return):
            return self.stmt_return(s, env)
        if isinstance(s, ast.Raise):
            return self.stmt_raise(s, env)
        if isinstance(s, ast.Continue):
            if not self.loop:
                self.fail("continue outside a for loop", s)
            return self.loop["again"](env)
        if isinstance(s, ast.Assign) and len(s.targets) == 1:
            return self.stmt_assign(s, s.targets[0], env, k)
        if isinstance(s, ast.Expr) and isinstance(s.value, ast.Call):
            return self.stmt_call(s, env, k)
        if isinstance(s, ast.If):
            return self.stmt_if(s, env, k)
        if isinstance(s, ast.For) and not s.orelse:
            return self.stmt_for(s, env, k)
        if isinstance(s, ast.While) and not s.orelse:
            return self.stmt_while(s, env, k)
        if isinstance(s, ast.Try):
            return self.stmt_try(s, env, rest, k)
        self.fail("statement %s" % ast.unparse(s).split("\n")[0][:60], s)

    def sub_m(self, stmts, env, what, node, returns):
        """stmts as one computation: `returns` = it must end in return / raise on every path (its type is the
        method's), otherwise it must fall through everywhere (type M unit)"""
        if self.stack or self.loop:
            self.fail("%s inside try / a loop" % what, node)
        saved = self.no_return
        self.no_return = not returns
        def end(env2):
            if returns:
                self.fail("%s whose body can fall through" % what, node)
            return "ret tt"
        txt = self.block(stmts, env, end)
        self.no_return = saved
        return txt

    def stmt_with(self, s, env, rest, k):
        if all(it.optional_vars is None and self_attr(it.context_expr) in self.ci["locks"] for it in s.items):
            return self.block(s.body, env, k)              # locks dropped: sequential semantics
        it = s.items[0]
        cm = CONTEXT_MANAGERS.get(ast.unparse(it.context_expr))
        if len(s.items) != 1 or cm is None or not isinstance(it.optional_vars, ast.Name) or rest:
            self.fail("`with` on something other than a lock or a context manager of the table, as the last statement", s)
        kind, init, enter, exit_ = cm
        env2 = dict(env)
        env2[it.optional_vars.id] = T("", kind)
        body = self.sub_m(s.body, env2, "with", s, True)
        return "%s ;;;\n%s ;;;\nfinally\n%s\n%s" % (init, enter, ind("(" + body + ")", 2), ind(exit_, 2))

    def stmt_raise(self, s, env):
        if s.cause is not None:
            self.fail("raise ... from", s)
        if s.exc is None:
            if not self.exc_var:
                self.fail("bare raise outside an except clause", s)
            return self.do_raise(self.exc_var, env)
        x = s.exc
        cls = x.func.id if isinstance(x, ast.Call) and isinstance(x.func, ast.Name) else None
        if cls is None or x.keywords or len(x.args) != 1:
            self.fail("raise %s" % ast.unparse(x)[:60], s)
        msg = self.check_message(x.args[0], env, s)
        if cls == "RuntimeError":
            if msg not in RUNTIME:
                self.fail("RuntimeError message not in the table RUNTIME: %r" % msg[:50], s)
            return self.do_raise("(XRuntime %s)" % RUNTIME[msg], env)
        if cls not in EXC:
            self.fail("raise %s" % ast.unparse(x)[:60], s)
        return self.do_raise("(%s)" % EXC[cls], env)

    def set_retkind(self, kind, node):
        g = self.sig
        if g.retkind is None:
            g.retkind = kind
        if g.retkind != kind and (kind, g.retkind) not in SUBKIND:
            self.fail("return kinds %s and %s" % (g.retkind, kind), node)

    def stmt_return(self, s, env):
        if self.no_return or self.loop:
            self.fail("return inside a loop / finally", s)
        v = s.value
        if v is None:
            if self.sig.retkind != "unit":
                self.fail("plain return in a method that returns a value", s)
            return "ret tt"
        if isinstance(v, ast.Name) and v.id == "self" and self.sig.retkind == "unit":
            return "ret tt"                                     # __enter__: the object is the world
        if self.has_mcall(v, env) and isinstance(v, ast.Call):
            pre, call, kind, out = self.mcall(v, env)
            if out or kind == "unit":
                self.fail("return of a call that returns nothing", s)
            self.set_retkind(kind, s)
            if not self.stack:
                return pre + call                                 # tail call
            x = self.fresh("r")
            return self.bindm(pre, call, x, env, lambda: "ret %s" % x)
        pre, t = self.pure(lambda: self.expr(v, env))
        if t.kind in ERASED or t.kind == "emptylist":
            self.fail("return of a %s" % t.kind, s)
        self.set_retkind(t.kind, s)
        self.ret_consts.append(t.const)
        return "%sret %s" % (pre, t.txt)

    def stmt_assign(self, s, tgt, env, k):
        v = s.value
        a = self_attr(tgt)
        if a is None and isinstance(tgt, ast.Attribute) and isinstance(tgt.value, ast.Name) \
                and tgt.value.id in env and env[tgt.value.id].kind == self.ci["self_kind"]:
            a = tgt.attr                                        # <local builder>.attr = ..
        if a is not None:
            if a in self.ci["attr_set"]:
                pre, t = self.pure(lambda: self.want(self.expr(v, env), self.ci["attrs"][a][1], s))
                return self.bindm(pre, self.ci["attr_set"][a].format(t.txt), None, env, lambda: k(env))
            key = ast.unparse(v)
            if isinstance(v, ast.Name) and v.id in env and env[v.id].kind in ERASED | {"oop"}:
                key = "<%s>" % env[v.id].kind
            if (a, key) not in self.ci["erased_set"]:
                self.fail("attribute write self.%s = %s" % (a, ast.unparse(v)[:40]), s)
            prim = self.ci["erased_set"][(a, key)]
            return k(env) if prim is None else self.bindm("", prim, None, env, lambda: k(env))
        if not isinstance(tgt, ast.Name):
            self.fail("assignment target %s" % ast.unparse(tgt), s)
        x = tgt.id
        if x in [p for p, _ in self.sig.allparams] and not (isinstance(v, ast.Call) and x in ast.unparse(v)):
            self.fail("assignment to the parameter %r" % x, s)
        if self.loop and x in self.loop["free"]:
            self.fail("loop body assigns %r, which is not threaded through the loop" % x, s)
        env2 = dict(env)
        if self.has_mcall(v, env):
            if isinstance(v, ast.Call):
                pre, call, kind, out = self.mcall(v, env)
                if out or kind == "unit":
                    self.fail("assignment of a call that returns nothing", s)
            else:
                pre, call, kind = "", self.mbool(v, env), "bool"
            if kind in ERASED:
                env2[x] = T("", kind)
                return self.bindm(pre, call, None, env, lambda: k(env2))
            env2[x] = T(cname(x), kind)
            return self.bindm(pre, call, cname(x), env, lambda: k(env2))
        pre, t = self.pure(lambda: self.expr(v, env))
        if t.kind in ERASED:
            self.fail("assignment of a %s" % t.kind, s)
        if isinstance(v, ast.Name) and env[v.id].kind in ("paths", "pathset", "emptylist", "bkentries"):
            self.fail("alias of the list %r" % v.id, s)
        if self_attr(v) in self.ci["attrs"] and t.kind in ELEM:
            self.aliased.add(self_attr(v))                     # the local is a snapshot: the list must not be mutated in place
        env2[x] = T(cname(x), t.kind)
        return "%slet %s := %s in\n%s" % (pre, cname(x), t.txt, k(env2))

    def note_change(self, x, node):
        if self.loop and x not in self.loop["carried"]:
            self.fail("loop body changes %r, which is not threaded through the loop" % x, node)

    def stmt_call(self, s, env, k):
        e = s.value
        key = ast.unparse(e)
        for a in self.aliased:
            if key.startswith("self.%s." % a):
                self.fail("in-place change of self.%s, of which a local is an alias" % a, s)
        if key in self.ci["stmt_calls"]:
            return self.bindm("", self.ci["stmt_calls"][key], None, env, lambda: k(env))
        if self.has_mcall(e, env):
            pre, call, kind, out = self.mcall(e, env)
            if out:
                env2 = dict(env)
                env2[out] = T(cname(out), kind)
                self.note_change(out, s)
                return self.bindm(pre, call, cname(out), env, lambda: k(env2))
            if kind not in ("unit", "bool"):
                self.fail("the result of a call is dropped", s)
            return self.bindm(pre, call, None if kind == "unit" else "_", env, lambda: k(env))
        mc = method_call(e)
        if mc and isinstance(mc[0], ast.Name) and mc[0].id in env and len(mc[2]) == 1 and env[mc[0].id].txt == cname(mc[0].id):
            x, op, a = mc[0].id, mc[1], mc[2][0]
            cur = env[x]
            self.note_change(x, s)
            if x in [p for p, _ in self.sig.allparams]:
                self.fail("the parameter %r is mutated" % x, s)
            env2 = dict(env)
            if op == "append" and cur.kind in ("emptylist", "paths", "names"):
                pre, t = self.pure(lambda: self.expr(a, env))
                lk = {"path": "paths", "name": "names"}.get(t.kind)
                if lk is None or cur.kind not in ("emptylist", lk):
                    self.fail("append of a %s to a %s" % (t.kind, cur.kind), s)
                env2[x] = T(cname(x), lk)
                return "%slet %s := %s ++ [%s] in\n%s" % (pre, cname(x), cname(x), t.txt, k(env2))
            if op in ("add", "discard") and cur.kind == "pathset":
                pre, t = self.pure(lambda: self.want(self.expr(a, env), "path", s))
                fn = "add_path" if op == "add" else "del_path"
                return "%slet %s := (%s %s %s) in\n%s" % (pre, cname(x), fn, t.txt, cname(x), k(env2))
            if op == "update" and cur.kind == "pathset":
                pre, t = self.pure(lambda: self.want(self.expr(a, env), "paths", s))
                return "%slet %s := (set_update %s %s) in\n%s" % (pre, cname(x), cname(x), t.txt, k(env2))
        if mc and mc[1] == "append" and len(mc[2]) == 1 and isinstance(mc[2][0], ast.Tuple) and self_attr(mc[0]) in self.ci["attrs"]:
            ts = [self.expr(y, env) for y in mc[2][0].elts]
            prim = TUPLE_APPEND.get((self.ci["attrs"][self_attr(mc[0])][1], tuple(t.kind for t in ts)))
            if prim:
                return self.bindm("", prim.format(*[t.txt for t in ts]), None, env, lambda: k(env))
        self.fail("call statement %s" % ast.unparse(e)[:60], s)

    def empty(self, stmts):
        return all(is_doc(x) or is_logger(x) or isinstance(x, ast.Pass) for x in stmts)

    def stmt_if(self, s, env, k):
        then = lambda: self.block(s.body, env, k)
        other = lambda: self.block(s.orelse, env, k)
        ite = lambda c, a, b: "(if %s then\n%s\n else\n%s)" % (c, ind(a, 4), ind(b, 4))
        nothing = self.empty(s.body) and self.empty(s.orelse)
        if nothing:
            for x in s.body + s.orelse:
                self.stmt(x, env, [], lambda e: "") if is_logger(x) else None
        if self.has_mcall(s.test, env):
            m = self.mbool(s.test, env)
            if nothing:                                         # the test is evaluated for its effects only
                return self.bindm("", m, "_", env, lambda: k(env))
            r = self.fresh("r")
            return self.bindm("", m, r, env, lambda: ite(r, then(), other()))
        pre, t = self.pure(lambda: self.want(self.expr(s.test, env), "bool", s))
        if t.const is not None:
            return then() if t.const else other()
        if nothing:
            return k(env)
        return pre + ite(t.txt, then(), other())

    # ================= try =================
    def stmt_try(self, s, env, rest, k):
        if s.orelse:
            self.fail("try ... else", s)
        if s.finalbody:
            if s.handlers or rest:
                self.fail("try/finally with except clauses, or not as the last statement", s)
            body = self.sub_m(s.body, env, "try/finally", s, True)
            fin = self.sub_m(s.finalbody, env, "finally", s, False)
            return "finally\n%s\n%s" % (ind("(" + body + ")", 2), ind("(" + fin + ")", 2))
        handlers = []
        for h in s.handlers:
            if h.name or h.type is None:
                self.fail("except clause %s" % ("as " + h.name if h.name else "<bare>"), h)
            clss = h.type.elts if isinstance(h.type, ast.Tuple) else [h.type]
            tests = []
            for cl in clss:
                if not isinstance(cl, ast.Name) or cl.id not in EXC_TEST:
                    self.fail("except clause %s" % ast.unparse(h.type), h)
                tests.append(EXC_TEST[cl.id])
            if len(tests) != 1:
                self.fail("except clause with several classes", h)
            handlers.append((tests[0], h))
        outer, outer_exc = self.stack, self.exc_var
        def k_after(env2):
            saved = (self.stack, self.exc_var)
            self.stack, self.exc_var = outer, outer_exc
            try:
                return k(env2)
            finally:
                self.stack, self.exc_var = saved
        self.stack = outer + [dict(handlers=handlers, k_after=k_after, node=s)]
        try:
            return self.block(s.body, env, k_after)
        finally:
            self.stack = outer

    # ================= loops =================
    def changed_in(self, nodes):
        """locals assigned or mutated in nodes (in order of first occurrence)"""
        out = []
        for b in nodes:
            for n in ast.walk(b):
                xs = []
                if isinstance(n, ast.Assign) and len(n.targets) == 1 and isinstance(n.targets[0], ast.Name):
                    xs.append(n.targets[0].id)
                mc = method_call(n) if isinstance(n, ast.Call) else None
                if mc and mc[1] in ("append", "add", "discard", "update") and isinstance(mc[0], ast.Name):
                    xs.append(mc[0].id)
                if isinstance(n, ast.Call):
                    for (nm, _, _), (_, _, out_i) in OS_MONADIC.items():
                        if out_i is not None and ast.unparse(n.func) == nm and len(n.args) > out_i and isinstance(n.args[out_i], ast.Name):
                            xs.append(n.args[out_i].id)
                for x in xs:
                    if x not in out:
                        out.append(x)
        return out

    def handler_nodes(self):
        """the bodies of the enclosing except clauses (a loop inside `try` inlines them)"""
        for ent in self.stack:
            for _, h in ent["handlers"]:
                if not isinstance(h.body[-1], ast.Raise):
                    self.fail("a loop inside `try` whose except clause does not end in raise", h)
        return [x for ent in self.stack for _, h in ent["handlers"] for x in h.body]

    def loop_frame(self, body_nodes, env, exclude, node):
        changed = self.changed_in(body_nodes)
        carried = [n for n in env if n in changed and n not in exclude]
        used = {n.id for b in body_nodes + self.handler_nodes() for n in ast.walk(b) if isinstance(n, ast.Name)}
        free = [n for n in env if n in used and n not in carried and n not in exclude and env[n].kind not in ERASED]
        for n in carried:
            if env[n].kind not in KTYPE or env[n].txt != cname(n):
                self.fail("loop changes %r, which is not a plain local" % n, node)
        for n in free:
            if env[n].kind not in KTYPE or env[n].kind == "emptylist":
                self.fail("a loop body uses the %s %r defined outside it" % (env[n].kind, n), node)
        calls = {self.ct.scope_call(n) for b in body_nodes for n in ast.walk(b) if isinstance(n, ast.Call)} - {None}
        rec = self.fn.name in calls
        fuel = any(self.sigs[m].fueled for m in calls if m in self.sigs and m != self.fn.name)
        return carried, free, rec, fuel

    def loop_head(self, free, env, rec, fuel):
        head = []
        if rec:
            head.append(("self_rec", "%s -> M (%s)" % (" -> ".join(KTYPE[kd] for _, kd in self.sig.params), KTYPE[self.sig.retkind])))
        if fuel:
            head.append(("fuel", "nat"))
        return head + [(env[n].txt if env[n].txt == cname(n) else cname(n), KTYPE[env[n].kind]) for n in free]

    def stmt_for(self, s, env, k):
        if self.loop:
            self.fail("nested loop", s)
        for b in s.body:
            for n in ast.walk(b):
                if isinstance(n, (ast.Return, ast.Break, ast.For, ast.While, ast.With)):
                    self.fail("%s inside a for loop" % type(n).__name__.lower(), n)
        # the list that is iterated: a call in the monad (evaluated once, before the loop) or a pure expression
        if self.has_mcall(s.iter, env):
            ipre, icall, kind, out = self.mcall(s.iter, env)
            it = self.fresh("it")
            bind_iter = lambda body: self.bindm(ipre, icall, it, env, lambda: body)
        else:
            pre, t = self.pure(lambda: self.expr(s.iter, env))
            it, kind = t.txt, t.kind
            bind_iter = lambda body: pre + body
        if kind not in ELEM:
            self.fail("for loop over a %s" % kind, s)
        ek = ELEM[kind]
        tg = s.target
        if isinstance(ek, tuple):
            if not (isinstance(tg, ast.Tuple) and len(tg.elts) == len(ek) and all(isinstance(x, ast.Name) for x in tg.elts)):
                self.fail("for loop target", s)
            tnames, tkinds = [x.id for x in tg.elts], list(ek)
            etype = "(%s)" % " * ".join(KTYPE[x] for x in ek)
        else:
            if not isinstance(tg, ast.Name):
                self.fail("for loop target", s)
            tnames, tkinds, etype = [tg.id], [ek], KTYPE[ek]
        carried, free, rec, fuel = self.loop_frame(s.body, env, tnames, s)
        if isinstance(s.iter, ast.Name) and s.iter.id in carried:
            self.fail("for loop changes the list it iterates", s)
        for x in tnames:
            if x in carried or x in env:
                self.fail("for loop variable %r is reused" % x, s)
        benv = {n: T(cname(n), env[n].kind) for n in free + carried}
        for n in free:
            benv[n] = env[n] if env[n].txt == cname(n) else T(cname(n), env[n].kind)
        for x, kd in zip(tnames, tkinds):
            benv[x] = T(cname(x), kd)
        head = self.loop_head(free, env, rec, fuel)
        ckinds = {n: env[n].kind for n in carried}
        key = (id(s), tuple((n, env[n].kind) for n in free + carried), tuple(id(x["node"]) for x in self.stack))
        fname = self.loops.get(key)
        known = fname is not None
        if not known:
            self.nloops += 1
            fname = "%s_loop%d" % (self.gname, self.nloops)
        pack = lambda e: "tt" if not carried else "(%s)" % ", ".join(e[n].txt for n in carried) if len(carried) > 1 else e[carried[0]].txt
        def again(e):
            for n in carried:
                if ckinds[n] == "emptylist" and e[n].kind != "emptylist":
                    ckinds[n] = e[n].kind
                elif e[n].kind not in (ckinds[n], "emptylist"):
                    self.fail("loop changes the kind of %r" % n, s)
            return "%s %s" % (fname, " ".join([a for a, _ in head] + ["xs'"] + [e[n].txt for n in carried]))
        if not known:
            saved = (self.loop, self.no_return)
            self.loop = dict(again=again, carried=carried, free=free)
            btxt = self.block(s.body, benv, again)
            self.loop, self.no_return = saved
            rt = "unit" if not carried else " * ".join(KTYPE[ckinds[n]] for n in carried)
            pat = cname(tnames[0]) if len(tnames) == 1 else "(%s)" % ", ".join(cname(x) for x in tnames)
            self.aux.append("Fixpoint %s %s(xs : list %s) %s{struct xs} : M (%s) :=\n  match xs with\n  | [] => ret %s\n  | %s :: xs' =>\n%s\n  end.\n" % (
                fname, "".join("(%s : %s) " % a for a in head), etype,
                "".join("(%s : %s) " % (cname(n), KTYPE[ckinds[n]]) for n in carried), rt, pack(benv), pat, ind(btxt, 6)))
            self.loops[key] = (fname, dict(ckinds))
        else:
            fname, ckinds = fname
        fname_txt = fname
        hargs = (["(%s fuel')" % self.gname] if rec else []) + (["fuel"] if fuel else []) + [env[n].txt for n in free]
        call = "(%s %s)" % (fname_txt, " ".join(hargs + [it] + [env[n].txt for n in carried]))
        env2 = dict(env)
        for n in carried:
            env2[n] = T(cname(n), ckinds[n])
        # the exceptions of the loop have been handled inside it: a plain bind even under `try`
        if not carried:
            return bind_iter(self.bindm("", call, None, env, lambda: k(env2), raw=True))
        if len(carried) == 1:
            return bind_iter(self.bindm("", call, cname(carried[0]), env, lambda: k(env2), raw=True))
        p = self.fresh("p")
        return bind_iter("%s <- %s ;;\nlet '(%s) := %s in\n%s" % (p, call, ", ".join(cname(n) for n in carried), p, k(env2)))

    def stmt_while(self, s, env, k):
        """while T: A; q = p; p = os.path.dirname(p); if p == q: raise E; B  -> Fixpoint structural on p"""
        if self.loop or self.stack:
            self.fail("while loop inside a loop / try", s)
        body = [x for x in s.body if not is_doc(x)]
        idx = None
        for i in range(len(body) - 2):
            a, b, c = body[i:i + 3]
            if (isinstance(a, ast.Assign) and len(a.targets) == 1 and isinstance(a.targets[0], ast.Name) and isinstance(a.value, ast.Name)
                    and ast.unparse(b) == "%s = os.path.dirname(%s)" % (a.value.id, a.value.id)
                    and isinstance(c, ast.If) and not c.orelse and len(c.body) == 1 and isinstance(c.body[0], ast.Raise)
                    and ast.unparse(c.test) == "%s == %s" % (a.value.id, a.targets[0].id)):
                idx, q, p = i, a.targets[0].id, a.value.id
                break
        if idx is None:
            self.fail("while loop without `q = p; p = os.path.dirname(p); if p == q: raise ..`", s)
        for b in body:
            for n in ast.walk(b):
                if isinstance(n, (ast.Return, ast.Break, ast.Continue, ast.For, ast.While, ast.With, ast.Try)):
                    self.fail("%s inside a while loop" % type(n).__name__.lower(), n)
        if p not in env or env[p].kind != "path" or env[p].txt != cname(p) or q in env:
            self.fail("while loop: %r is not a plain local path / %r is defined before the loop" % (p, q), s)
        carried, free, rec, fuel = self.loop_frame(body, env, [q], s)
        if rec or p not in carried:
            self.fail("while loop", s)
        others = [n for n in carried if n != p]
        self.nloops += 1
        fname = "%s_loop%d" % (self.gname, self.nloops)
        head = self.loop_head(free, env, rec, fuel)
        ckinds = {n: env[n].kind for n in carried}
        benv = {n: T(cname(n), env[n].kind) for n in free + carried}
        pack = lambda e: "(%s)" % ", ".join(e[n].txt for n in carried) if len(carried) > 1 else e[carried[0]].txt
        def again(e):
            for n in carried:
                if ckinds[n] == "emptylist" and e[n].kind != "emptylist":
                    ckinds[n] = e[n].kind
            if not e[p].tl_of or e[p].tl_of[1]:
                self.fail("internal: while loop continues without having moved to the parent", s)
            return "%s %s" % (fname, " ".join([a for a, _ in head] + [e[p].txt] + [e[n].txt for n in others]))
        pre, t = self.pure(lambda: self.want(self.expr(s.test, benv), "bool", s))
        if self.has_mcall(s.test, benv):
            self.fail("while test with calls", s)
        saved = (self.loop, self.no_return)
        self.loop = dict(again=lambda e: self.fail("continue inside a while loop", s), carried=carried, free=free)
        tail_v = cname(p) + "'"
        def step(e):
            """q = p; p = dirname p; if p == q: raise: a match on p"""
            qtxt = e[p].txt
            e_root, e_cons = dict(e), dict(e)
            e_root[q] = e_cons[q] = T(qtxt, "path")
            e_root[p] = T("[]", "path", tl_of=(qtxt, True))
            e_cons[p] = T(tail_v, "path", tl_of=(qtxt, False))
            k2 = lambda e2: self.block(body[idx + 3:], e2, again)
            root = self.stmt(body[idx + 2], e_root, [], lambda e2: self.fail("internal: the root does not raise", s))
            cons = self.stmt(body[idx + 2], e_cons, [], k2)
            return "(match %s with\n | [] =>\n%s\n | _ :: %s =>\n%s\n end)" % (qtxt, ind(root, 4), tail_v, ind(cons, 4))
        btxt = self.block(body[:idx], benv, step)
        self.loop, self.no_return = saved
        rt = " * ".join(KTYPE[ckinds[n]] for n in carried)
        self.aux.append("Fixpoint %s %s(%s : path) %s{struct %s} : M (%s) :=\n  %s(if %s then\n%s\n   else ret %s).\n" % (
            fname, "".join("(%s : %s) " % a for a in head), cname(p),
            "".join("(%s : %s) " % (cname(n), KTYPE[ckinds[n]]) for n in others), cname(p), rt,
            pre.replace("\n", " "), t.txt, ind(btxt, 6), pack(benv)))
        call = "(%s %s)" % (fname, " ".join([env[n].txt for n in free] + [env[p].txt] + [env[n].txt for n in others]))
        env2 = dict(env)
        for n in carried:
            env2[n] = T(cname(n), ckinds[n])
        if len(carried) == 1:
            return "%s <- %s ;;\n%s" % (cname(p), call, k(env2))
        pv = self.fresh("p")
        return "%s <- %s ;;\nlet '(%s) := %s in\n%s" % (pv, call, ", ".join(cname(n) for n in carried), pv, k(env2))

    # ================= whole method =================
    def translate(self):
        g = self.sig
        self.ret_consts = []
        env = {}
        for p, kd in g.allparams:
            if cname(p) != p:
                self.fail("parameter name %r" % p, self.fn)
            env[p] = T("" if kd in ERASED else p, kd)
        for p in (g.vararg, g.kwarg):
            if p:
                env[p] = T("", "rootargs")
        def fall_off(e):
            if g.retkind != "unit":
                self.fail("method mixes `return <value>` and falling off the end", self.fn)
            return "ret tt"
        body = self.block(self.fn.body, env, fall_off)
        if g.retkind is None or g.retkind not in KTYPE:
            self.fail("cannot type the result", self.fn)
        # a method that only returns one static constant is a constant for its callers
        if g.retkind == "bool" and self.ret_consts and all(c is not None and c == self.ret_consts[0] for c in self.ret_consts) \
                and body.strip() == "ret %s" % ("true" if self.ret_consts[0] else "false"):
            g.const = self.ret_consts[0]
        sig = ("(fuel : nat) " if g.fueled else "") + " ".join("(%s : %s)" % (p, KTYPE[kd]) for p, kd in g.params)
        rt = "M (%s)" % KTYPE[g.retkind]
        if g.rec:
            body = "match fuel with\n| O => raise (%s)\n| S fuel' =>\n%s\nend" % (FUEL_EXN[self.fn.name], ind(body, 4))
            head = "Fixpoint %s %s {struct fuel} : %s :=\n" % (self.gname, sig, rt)
        else:
            head = "Definition %s %s: %s :=\n" % (self.gname, sig + " " if sig else "", rt)
        return "".join(a + "\n" for a in self.aux) + head + ind(body) + ".\n"


HEADER = """(* GENERATED by tools/translate/driver_tr.py from file_builder/file_backups.py and the build driver of
   file_builder/file_builder.py.  Do not edit: regenerate with
     python tools/translate/driver_tr.py /repo coq/Gen/DriverGen.v
   The equalities with the hand-written model (Model/Builder.v, Model/Build.v) are in Proofs/DriverGenLaws.v. *)
From Coq Require Import List String NArith ZArith Bool Arith.
From FB.Base Require Import PyVal Fs.
From FB.Gen Require Import JsonUtilGen ExecGen.
From FB.Model Require Import Types Monad CreatedFiles BuildDirs SimpleOps Builder Persist.
Import ListNotations.
Open Scope list_scope.
Open Scope m_scope.

(* ---- primitives (the tables of tools/translate/DRIVERGEN_NOTES.md) ---- *)
(* os.mkdir / os.rmdir / os.remove / os.makedirs(d, exist_ok=True) / os.replace(<backup>, p): mutating calls go
   through effect / effect_p of Model/Monad.v (numbered, fault list, logged) *)
Definition m_mkdir (p : path) : M unit := effect "mkdir" p (fun fs => mkdir fs p).
Definition m_rmdir (p : path) : M unit := effect "rmdir" p (fun fs => rmdir fs p).
Definition m_remove (p : path) : M unit := effect "remove" p (fun fs => remove fs p).
Definition m_makedirs_p (d : path) : M unit := effect_p "makedirs" d (fun fs => makedirs_p fs d).
Definition m_replace (p : path) (f : fnode) : M unit := effect "replace" p (fun fs => replace_in fs p f).
(* the backup area (the temporary directory of FileBackups) is outside the modelled tree: a slot is identified by
   the file it is allocated for, and after os.rename(p, <slot>) the slot variable stands for the node that moved *)
Definition m_makedirs_tmp (p : path) : M unit := effect "makedirs_tmp" p (fun fs => inl fs).
Definition m_rename_out (p : path) : M node :=
  fun w =>
    let n := w_effects w in
    let w1 := set_effects (S n) w in
    if existsb (Nat.eqb n) (w_faults w) then (w1, inr (XOS XOSError)) else
    match rename_out (w_fs w1) p with
    | inr e => (w1, inr (XOS (err_of e)))
    | inl (fs', NDir) => (set_log (LEffect "rename_dir_out" p :: w_log w1) (set_lost (w_lost w1 ++ [p]) (set_fs fs' w1)), inl NDir)
    | inl (fs', NFile f) => (set_log (LEffect "rename_out" p :: w_log w1) (set_fs fs' w1), inl (NFile f))
    end.
(* self._backups.append((p, <slot>)): the entry carries the regular file that sits in the slot *)
Definition bk_append (p : path) (n : node) : M unit :=
  match n with
  | NFile f => modify (fun w => set_backups (w_backups w ++ [(p, f)]) w)
  | NDir => ret tt
  end.
(* tempfile.mkdtemp / shutil.rmtree(<the temporary directory>): a new area holds nothing; whatever is in it is gone *)
Definition m_mkdtemp : M unit := modify (set_lost []).
Definition m_rmtree_tmp : M unit := modify (set_lost []).
(* set(l) / s.update(l): a set is a duplicate-free list in insertion order *)
Definition set_of_paths (l : list path) : list path := fold_left (fun acc p => add_path p acc) l [].
Definition set_update (s l : list path) : list path := fold_left (fun acc p => add_path p acc) l s.
(* self._old_cache = c *)
Definition set_old (c : cache) (w : world) : world :=
  {| w_fs := w_fs w; w_clock := w_clock w; w_nextid := w_nextid w; w_old := c; w_new := w_new w;
     w_bd := w_bd w; w_backups := w_backups w; w_lost := w_lost w; w_hash := w_hash w;
     w_cachefile := w_cachefile w; w_log := w_log w; w_faults := w_faults w; w_effects := w_effects w |}.
(* Cache.read_immutable(p) (Model/Persist.v: cache_of_json on the JSON value the file holds) *)
Definition m_read_cache (p : path) : M cache :=
  fun w => match lookup (w_fs w) p with
           | Some (NFile f) =>
               match cache_of_json (f_json f) with
               | ReadOk c => (w, inl c)
               | ReadRuntime => (w, inr (XRuntime RBadCache))
               | ReadMalformed => (w, inr (XCrash "malformed cache"))
               end
           | Some NDir => (w, inr (XOS XIsADirectory))
           | None => (w, inr (XOS (err_of (stat_err (w_fs w) p))))
           end.
(* self._new_cache.add_created_dirs(l) *)
Definition m_add_created_dirs (l : list path) : M unit :=
  modify (fun w => let c := w_new w in
                   set_new (cache_with c (c_files c) (c_subs c) (set_update (c_dirs c) l) (c_built c)) w).
(* self._new_cache.write(p): gzip.open creates the file, then the text is written *)
Definition m_write_cache (p : path) : M unit :=
  w <- get ;;
  match cache_to_json (w_new w) with
  | None => raise (XCrash "AttributeError in Cache.write")
  | Some j =>
      effect "create_cache" p (fun fs => write_file fs p "" None (w_clock w) (w_nextid w)) ;;;
      modify (fun w => set_clock (w_clock w) (N.succ (w_nextid w)) w) ;;;
      effect "write_cache" p (fun fs => write_file fs p "<cache>" (Some j) (w_clock w) (w_nextid w))
  end.
(* func(builder, *args, **kwargs) for the root function: the invocation is logged, the suboperation records it
   returns belong to no operation *)
Definition call_root (root : body) : M pyval :=
  fun w => let '(w2, (res, _)) := root (set_log (LInvoke "<root>" None PNone PNone :: w_log w) w) in (w2, res).
(* except Exception: every exception of the model is one *)
Definition is_exception (e : exn) : bool := true.
"""


def main():
    if len(sys.argv) != 3:
        print("usage: driver_tr.py <repo_dir> <output.v>")
        sys.exit(1)
    repo, out_path = sys.argv[1], sys.argv[2]
    try:
        world = {}
        parts = []
        for ci in CLASSES:
            ct = world[ci["cls"]] = ClassTr(ci, repo, world)
            parts.append("(* ================= %s (%s) ================= *)\n" % (ci["cls"], ci["file"]) + ct.run())
        txt = HEADER + "\n" + "\n".join(parts)
    except (TranslationError, SyntaxError, OSError) as e:
        print("TRANSLATION-ERROR driver: %s" % e)
        sys.exit(1)
    try:
        old = open(out_path).read()
    except FileNotFoundError:
        old = None
    if old != txt:
        with open(out_path, "w") as f:
            f.write(txt)
        print("driver: regenerated", out_path)
    else:
        print("driver: unchanged")


if __name__ == "__main__":
    main()
