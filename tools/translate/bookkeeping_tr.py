#!/usr/bin/env python3
"""Translate created_files.py and build_dirs.py into Gallina (Gen/BookGen.v).

    python bookkeeping_tr.py <repo_dir> <output.v>

One definition `gen_cf_<method>` / `gen_bd_<method>` per method of CreatedFiles / BuildDirs, over the
records `cfiles` / `bdirs` of Model/Types.v.  The object is the explicit state `s`; a method becomes a
function  [fuel] [fs] s args -> result  whose shape is inferred from the method:
  pure: never raises                 -> S | A | S * A      (S if it mutates, A if it returns a value)
  opt : may raise KeyError           -> option (...)       (None = KeyError)
  scan: calls os.listdir             -> gres S A           (GRet | GKeyError | GOSError | GFuel)
`fs` is present when the method (or a callee) reads the file system, `fuel` when it (or a callee) is
recursive.  Fail-closed: any statement or expression outside the shapes below ends the run with
"TRANSLATION-ERROR <file>:<line>: ..." and exit status 1; nothing is written.

Data.  Paths are `list name`, innermost component first: os.path.dirname = dirname (tl), os.path.join(d, n)
= n :: d, os.path.split(p) = a match on p (root [] / base :: dir), os.path.normcase = identity.  A parameter is
a `list path` when the method applies set(...) to it or iterates it, a `path` otherwise.  Attributes (FIELDS):
  set    set<str>             list path            in / add / discard / remove (KeyError) / clear / list(F)
  idmap  dict normcase(p)->p  list path            F[k] = v (k, v the same term) / F.pop(k, None) is [not] None /
                                                   list(F.values())
  cnt    dict<str, int>       list (path * nat)    in / F.get(k, 0) / F[k] (KeyError) / F[k] = n / F.pop(k)
  submap dict<str, dict>      list (path * list name)   F.get(k) / x = F.setdefault(k, {}) / x = F[k] / F.pop(k);
         x is then an alias of the inner dict: k not in x / x[k] = v / x.pop(k) / `if x:` / list(x.values())
Locks (`self._lock`, `self._creation_lock`, threading.Lock(), `with <locks>:`) are dropped.

Expressions: names, True/False, small ints, [], not/and/or, e + 1 (S e), e - 1, a > b / >= / < / <=, `in`,
os.path.{normcase,dirname,join,isfile,isdir}, set(<list parameter>) (membership only), the attribute reads above.
`x = y` / `x = os.path.normcase(y)` make x a synonym of y; other assignments are `let`.

Statements: docstrings; `with <locks>:`; assignments; the attribute operations above; `local.append(e)`;
`self._m(args)` as a statement, as `return self._m(args)`, or as the test `if [not] self._m(args):`;
`a, b = os.path.split(x)` (then `a == x` / `a != x` are decided statically in either branch of the match);
`x = F.get(k)` ... `if x is [not] None:` (a match on the option); if / elif / else; return; and four loops:
  climb   `parent = os.path.dirname(prev)` ... `while parent != prev: BODY; prev = parent; parent =
          os.path.dirname(parent)`  -> a top-level Fixpoint, structural on prev (`[]` exits, `_ :: parent` runs
          BODY); `break` exits; locals defined before the loop and changed in BODY are threaded through.
  ascend  `while GUARD: BODY; p = os.path.dirname(p)` where GUARD has the conjunct `p not in self.F` and BODY
          does `self.F.add(p)` -> a top-level Fixpoint, structural on p, returning (s, p); the recursion is cut
          at the root [] (after BODY the guard is false there: BookGenLaws proves the guard false on exit).
  for     `for x in <listing>: BODY` -> a local fix over the list; the code after the loop is its [] branch, so
          `return` inside BODY leaves the method; no break, no threaded locals.
  try     `try: x = os.listdir(e)` with `except <OSError subclass>:` handlers that all end in return -> a match
          on `listdir fs e`; unhandled classes propagate as GOSError.
The constructor must assign every attribute of FIELDS exactly once ({} / set() / set([os.path.normcase(v) for v
in <parameter>])) and may create locks.
"""
import ast
import os
import re
import sys


class TranslationError(Exception):
    pass


CLASSES = [
    dict(cls="CreatedFiles", file="created_files.py", prefix="gen_cf_", state="cfiles", locks=set(), fields={
        "_norm_cased_files": ("cf_files", "set"), "_norm_cased_dirs": ("cf_dirs", "set"),
        "_norm_cased_dir_to_subfiles": ("cf_sub", "submap"),
        "_norm_cased_dir_to_started_count": ("cf_counts", "cnt")}),
    dict(cls="BuildDirs", file="build_dirs.py", prefix="gen_bd_", state="bdirs", locks={"_lock", "_creation_lock"},
         fields={"_build_dir_counts": ("bd_counts", "cnt"), "_created_dirs_map": ("bd_created", "idmap"),
                 "_error_created_dirs": ("bd_err_created", "set"), "_removed_dirs": ("bd_removed", "set"),
                 "_exists_dirs": ("bd_exists", "set"), "_maybe_removed_dirs": ("bd_maybe", "set"),
                 "_removed_files": ("bd_removed_files", "set")}),
]
FTYPE = {"set": "list path", "idmap": "list path", "cnt": "list (path * nat)", "submap": "list (path * list name)"}
KTYPE = {"path": "path", "name": "name", "nat": "nat", "bool": "bool", "paths": "list path",
         "names": "list name", "emptylist": "list _", "unit": "unit"}
OSERR = {"FileNotFoundError": "ENOENT", "NotADirectoryError": "ENOTDIR", "IsADirectoryError": "EISDIR",
         "FileExistsError": "EEXIST"}
RESERVED = {"s", "fs", "fuel", "fuel'", "e_", "xs", "xs'", "loop", "in", "end", "at", "fun", "fix", "let", "match",
            "with", "if", "then", "else", "return", "as", "Some", "None", "tt", "true", "false"}
MODES = ["pure", "opt", "scan"]
SCAN_TAIL = "\n | GKeyError => GKeyError\n | GOSError s e_ => GOSError s e_\n | GFuel => GFuel\n end)"


def cname(n):
    return n + "_py" if n in RESERVED else n


def ind(txt, n=2):
    return "\n".join(" " * n + l for l in txt.split("\n"))


class T:
    """A translated expression: Coq text + kind (KTYPE, or "opt" with .inner, or "alias" with .alias =
    (state field, key text)); .const for static booleans, .defn for the term a variable was bound to,
    .tl_of = (source text, is_root) for the directory part of os.path.split."""
    def __init__(self, txt, kind, **kw):
        self.txt, self.kind = txt, kind
        self.const = self.defn = self.alias = self.inner = self.tl_of = None
        self.__dict__.update(kw)


def self_attr(e):
    if isinstance(e, ast.Attribute) and isinstance(e.value, ast.Name) and e.value.id == "self":
        return e.attr
    return None


def os_call(e, name):
    """e is `os.<name>(...)` or `os.path.<name>(...)` (name given with its prefix) -> argument list"""
    if isinstance(e, ast.Call) and not e.keywords and ast.unparse(e.func) == name:
        return e.args
    return None


def method_call(e):
    """e is `self.<recv>.<attr>(args)` or `<local>.<attr>(args)` -> (receiver node, attr, args)"""
    if isinstance(e, ast.Call) and not e.keywords and isinstance(e.func, ast.Attribute):
        return e.func.value, e.func.attr, e.args
    return None


class Sig:
    def __init__(self):
        self.calls, self.mode, self.fs, self.mut, self.ret, self.fueled, self.rec = set(), 0, False, False, False, False, False
        self.retkind = None


def analyse(methods, fail):
    """effects of every method: syntactic scan, then propagation along self._m(...) calls"""
    sigs = {}
    for name, fn in methods.items():
        g = sigs[name] = Sig()
        for n in ast.walk(fn):
            mc = method_call(n)
            if mc:
                recv, attr, args = mc
                if isinstance(recv, ast.Name) and recv.id == "self":
                    g.calls.add(attr)
                    if attr not in methods:
                        fail("call of unknown method %s" % attr, n)
                if self_attr(recv) and attr in ("add", "discard", "remove", "clear", "pop", "setdefault"):
                    g.mut = True
                if isinstance(recv, ast.Name) and recv.id != "self" and attr == "pop":
                    g.mut = True
                if (attr == "pop" and len(args) == 1) or attr == "remove":
                    g.mode = max(g.mode, 1)
            if isinstance(n, ast.Subscript):
                if isinstance(n.ctx, ast.Load):
                    g.mode = max(g.mode, 1)
                else:
                    g.mut = True
            if isinstance(n, ast.Try) or os_call(n, "os.listdir") is not None:
                g.mode, g.fs = 2, True
            if os_call(n, "os.path.isfile") is not None or os_call(n, "os.path.isdir") is not None:
                g.fs = True
            if isinstance(n, ast.Return) and n.value is not None:
                g.ret = True
        g.rec = g.fueled = name in g.calls
    changed = True
    while changed:
        changed = False
        for name, g in sigs.items():
            for c in g.calls - {name}:
                h = sigs[c]
                new = (max(g.mode, h.mode), g.fs or h.fs, g.mut or h.mut, g.fueled or h.fueled)
                if new != (g.mode, g.fs, g.mut, g.fueled):
                    g.mode, g.fs, g.mut, g.fueled = new
                    changed = True
    order, state = [], {}
    def visit(name):
        if state.get(name) == 1:
            fail("mutual recursion through %s" % name, methods[name])
        if name in state:
            return
        state[name] = 1
        for c in sorted(sigs[name].calls - {name}, key=list(methods).index):
            visit(c)
        state[name] = 2
        order.append(name)
    for name in methods:
        visit(name)
    return sigs, order


class MethodTr:
    def __init__(self, ci, fn, sigs, path):
        self.ci, self.fn, self.sigs, self.path = ci, fn, sigs, path
        self.sig = sigs[fn.name]
        self.mode = MODES[self.sig.mode]
        self.S = ci["state"]
        self.gname = ci["prefix"] + fn.name.strip("_")
        self.pending, self.aux, self.nloops, self.nfresh = [], [], 0, 0
        self.ret_ok, self.brk = True, None

    def fail(self, msg, node):
        raise TranslationError("%s:%d: %s" % (self.path, getattr(node, "lineno", 0), msg))

    def fresh(self, base):
        self.nfresh += 1
        return "%s%d_" % (base, self.nfresh)

    # ---- environment ----
    def bind(self, env, name, t):
        """env with `name` bound to t; synonyms / aliases / definitions that mention the Coq variable being
        rebound are forgotten (a later use of them is then an unknown name: fail-closed)"""
        tok = re.compile(r"(?<![\w'])%s(?![\w'])" % re.escape(cname(name)))
        env2 = {}
        for k, v in env.items():
            if k == name:
                continue
            if v.txt != cname(k) and tok.search(v.txt) or (v.alias and tok.search(v.alias[1])):
                continue
            if v.defn and tok.search(v.defn):
                v = T(v.txt, v.kind, inner=v.inner)
            env2[k] = v
        env2[name] = t
        return env2

    def field(self, e):
        a = self_attr(e)
        if a in self.ci["fields"]:
            return self.ci["fields"][a]
        return None

    def setf(self, f, val):
        return "let s := set_%s s %s in" % (f, val)

    def kerr(self, node):
        if self.mode == "pure":
            self.fail("KeyError in a method classified as total", node)
        return "None" if self.mode == "opt" else "GKeyError"

    def guarded(self, node, body):
        """wrap the text `body()` in the KeyError tests collected while translating the expressions of a statement"""
        gs, self.pending = self.pending, []
        body = body()                          # only now: the continuation has its own KeyError tests
        for var, opt in reversed(gs):
            body = "(match %s with\n | None => %s\n | Some %s =>\n%s\n end)" % (opt, self.kerr(node), var, ind(body, 4))
        return body

    # ---- expressions (pure; KeyError tests go to self.pending) ----
    def expr(self, e, env):
        if isinstance(e, ast.Constant) and isinstance(e.value, bool):
            return T("true" if e.value else "false", "bool", const=e.value)
        if isinstance(e, ast.Constant) and isinstance(e.value, int) and 0 <= e.value < 10:
            return T(str(e.value), "nat")
        if isinstance(e, ast.Name):
            if e.id not in env:
                self.fail("unknown or no longer valid name %r" % e.id, e)
            return env[e.id]
        if isinstance(e, ast.List) and not e.elts:
            return T("[]", "emptylist")
        if isinstance(e, ast.UnaryOp) and isinstance(e.op, ast.Not):
            a = self.want(self.expr(e.operand, env), "bool", e)
            if a.const is not None:
                return T("false" if a.const else "true", "bool", const=not a.const)
            return T("(negb %s)" % a.txt, "bool")
        if isinstance(e, ast.BoolOp):
            xs = [self.want(self.expr(x, env), "bool", e).txt for x in e.values]
            op = "andb" if isinstance(e.op, ast.And) else "orb"
            r = xs[-1]
            for x in reversed(xs[:-1]):
                r = "(%s %s %s)" % (op, x, r)
            return T(r, "bool")
        if (isinstance(e, ast.BinOp) and isinstance(e.op, (ast.Add, ast.Sub))
                and isinstance(e.right, ast.Constant) and e.right.value == 1):
            a = self.want(self.expr(e.left, env), "nat", e)
            return T("(S %s)" % a.txt if isinstance(e.op, ast.Add) else "(%s - 1)" % a.txt, "nat")
        if isinstance(e, ast.Compare) and len(e.ops) == 1:
            return self.compare(e, e.ops[0], e.left, e.comparators[0], env)
        if isinstance(e, ast.Subscript) and isinstance(e.ctx, ast.Load):
            f = self.field(e.value)
            if f and f[1] == "cnt":
                k = self.want(self.expr(e.slice, env), "path", e)
                v = self.fresh("n")
                self.pending.append((v, "cnt_get (%s s) %s" % (f[0], k.txt)))
                return T(v, "nat")
        if isinstance(e, ast.Call):
            return self.call(e, env)
        self.fail("expression %s" % ast.unparse(e)[:60], e)

    def want(self, t, kind, node):
        if t.kind != kind:
            self.fail("expected %s, found %s (%s)" % (kind, t.kind, t.txt), node)
        return t

    def compare(self, e, op, l, r, env):
        if isinstance(op, (ast.In, ast.NotIn)):
            f = self.field(r)
            if f and f[1] in ("set", "idmap"):
                txt = "(mem_path %s (%s s))" % (self.want(self.expr(l, env), "path", e).txt, f[0])
            elif f and f[1] == "cnt":
                txt = "(cnt_mem (%s s) %s)" % (f[0], self.want(self.expr(l, env), "path", e).txt)
            elif f:
                self.fail("membership in a %s attribute" % f[1], e)
            else:
                c = self.expr(r, env)
                if c.kind == "paths":
                    txt = "(mem_path %s %s)" % (self.want(self.expr(l, env), "path", e).txt, c.txt)
                elif c.kind == "alias":
                    txt = "(mem_str %s %s)" % (self.want(self.expr(l, env), "name", e).txt, self.alias_val(c))
                else:
                    self.fail("membership in a %s" % c.kind, e)
            return T(txt if isinstance(op, ast.In) else "(negb %s)" % txt, "bool")
        if isinstance(op, (ast.Gt, ast.GtE, ast.Lt, ast.LtE)):
            a, b = self.want(self.expr(l, env), "nat", e), self.want(self.expr(r, env), "nat", e)
            if isinstance(op, (ast.Gt, ast.GtE)):
                a, b = b, a
            return T("(Nat.%s %s %s)" % ("ltb" if isinstance(op, (ast.Gt, ast.Lt)) else "leb", a.txt, b.txt), "bool")
        if isinstance(op, (ast.Eq, ast.NotEq)):
            a, b = self.expr(l, env), self.expr(r, env)
            if a.tl_of and a.tl_of[0] == b.txt:       # dirname part of os.path.split(x) compared with x
                v = a.tl_of[1] == isinstance(op, ast.Eq)
                return T("true" if v else "false", "bool", const=v)
        self.fail("comparison %s" % ast.unparse(e)[:60], e)

    def alias_val(self, a):
        return "(sub_at (%s s) %s)" % a.alias

    def call(self, e, env):
        for fn, kinds, fmt, kind in (("os.path.normcase", None, None, None),
                                     ("os.path.dirname", ["path"], "(dirname %s)", "path"),
                                     ("os.path.join", ["path", "name"], None, "path"),
                                     ("os.path.isfile", ["path"], "(isfile fs %s)", "bool"),
                                     ("os.path.isdir", ["path"], "(isdir fs %s)", "bool")):
            args = os_call(e, fn)
            if args is None:
                continue
            if fn == "os.path.normcase" and len(args) == 1:
                return self.expr(args[0], env)
            if len(args) != len(kinds):
                self.fail("arity of %s" % fn, e)
            ts = [self.want(self.expr(a, env), k, e).txt for a, k in zip(args, kinds)]
            if fn == "os.path.join":
                return T("(%s :: %s)" % (ts[1], ts[0]), "path")
            return T(fmt % ts[0], kind)
        if isinstance(e.func, ast.Name) and e.func.id == "set" and len(e.args) == 1 and isinstance(e.args[0], ast.Name):
            return self.want(self.expr(e.args[0], env), "paths", e)
        if isinstance(e.func, ast.Name) and e.func.id == "list" and len(e.args) == 1 and not e.keywords:
            a = e.args[0]
            f = self.field(a)
            if f and f[1] == "set":
                return T("(%s s)" % f[0], "paths")
            mc = method_call(a)
            if mc and mc[1] == "values" and not mc[2]:
                f = self.field(mc[0])
                if f and f[1] == "idmap":
                    return T("(%s s)" % f[0], "paths")
                if isinstance(mc[0], ast.Name):
                    x = self.expr(mc[0], env)
                    if x.kind == "names":
                        return x
                    if x.kind == "alias":
                        return T(self.alias_val(x), "names")
        mc = method_call(e)
        if mc and mc[1] == "get":
            f = self.field(mc[0])
            if f and f[1] == "cnt" and len(mc[2]) == 2:
                k = self.want(self.expr(mc[2][0], env), "path", e)
                d = self.want(self.expr(mc[2][1], env), "nat", e)
                return T("(cnt_get_or (%s s) %s %s)" % (f[0], k.txt, d.txt), "nat")
            if f and f[1] == "submap" and len(mc[2]) == 1:
                k = self.want(self.expr(mc[2][0], env), "path", e)
                return T("(sub_get (%s s) %s)" % (f[0], k.txt), "opt", inner="names")
        self.fail("call %s" % ast.unparse(e)[:60], e)

    # ---- results ----
    def result(self, parts):
        """value of the current shape from the state and/or a returned term"""
        txt = parts[0] if len(parts) == 1 else "(%s)" % ", ".join(parts)
        if self.mode == "opt":
            return "Some %s" % txt
        return txt

    def ret(self, val, node):
        if not self.ret_ok:
            self.fail("return inside a while loop", node)
        if (val is not None) != self.sig.ret:
            self.fail("method mixes `return <value>` and plain return / falling off the end", node)
        if val is not None:
            k = self.sig.retkind
            if k in (None, "emptylist") or (val.kind == "emptylist" and k in ("paths", "names")):
                self.sig.retkind = k if val.kind == "emptylist" and k else val.kind
            elif k != val.kind:
                self.fail("return kinds %s and %s" % (k, val.kind), node)
        if self.mode == "scan":
            return "GRet s %s" % (val.txt if val else "tt")
        parts = (["s"] if self.sig.mut else []) + ([val.txt] if val else [])
        return self.result(parts or ["tt"])

    def self_call(self, e):
        mc = method_call(e)
        return mc and isinstance(mc[0], ast.Name) and mc[0].id == "self"

    def call_text(self, e, env):
        _, name, args = method_call(e)
        h = self.sigs[name]
        if len(args) != len(h.params):
            self.fail("arity of %s" % name, e)
        pre = ((["fuel'" if name == self.fn.name else "fuel"] if h.fueled else []) + (["fs"] if h.fs else []) + ["s"]
               + [self.want(self.expr(a, env), k, e).txt for a, (_, k) in zip(args, h.params)])
        return h, "(%s%s %s)" % (self.ci["prefix"], name.strip("_"), " ".join(pre))

    def bind_call(self, e, env, kont):
        """run self._m(args), then kont(returned value or None, env)"""
        h, call = self.call_text(e, env)
        if self.pending:
            self.fail("KeyError-raising argument of a method call", e)
        rv = self.fresh("r") if h.ret else None
        val = T(rv, h.retkind or "bool") if rv else None
        body = kont(val, env)
        if h.mode == 2:
            return "(match %s with\n | GRet s %s =>\n%s%s" % (call, rv or "_", ind(body, 4), SCAN_TAIL)
        pat = (["s"] if h.mut else []) + ([rv] if rv else [])
        pat = pat[0] if len(pat) == 1 else "(%s)" % ", ".join(pat) if pat else "_"
        if h.mode == 1:
            return "(match %s with\n | None => %s\n | Some %s =>\n%s\n end)" % (call, self.kerr(e), pat, ind(body, 4))
        return "let %s%s := %s in\n%s" % ("'" if pat[0] == "(" else "", pat, call, body)

    # ---- statements, in continuation-passing style: k(env) is the text of what follows ----
    def block(self, stmts, env, k):
        if not stmts:
            return k(env)
        return self.stmt(stmts[0], env, stmts[1:], lambda env2: self.block(stmts[1:], env2, k))

    def stmt(self, s, env, rest, k):
        if isinstance(s, ast.Expr) and isinstance(s.value, ast.Constant) and isinstance(s.value.value, str):
            return k(env)
        if isinstance(s, ast.With):
            for it in s.items:
                if it.optional_vars is not None or self_attr(it.context_expr) not in self.ci["locks"]:
                    self.fail("`with` on something other than the object's locks", s)
            return self.block(s.body, env, k)
        if isinstance(s, (ast.Return, ast.Break)) and rest:
            self.fail("dead code after return/break", rest[0])
        if isinstance(s, ast.Break):
            if not self.brk:
                self.fail("break outside a climbing loop", s)
            return self.brk(env)
        if isinstance(s, ast.Return):
            return self.stmt_return(s, env)
        if isinstance(s, ast.Assign) and len(s.targets) == 1:
            return self.stmt_assign(s, s.targets[0], env, k)
        if isinstance(s, ast.Expr) and isinstance(s.value, ast.Call):
            return self.stmt_call(s, env, k)
        if isinstance(s, ast.If):
            return self.stmt_if(s, env, k)
        if isinstance(s, ast.While) and not s.orelse:
            return self.stmt_while(s, env, k)
        if isinstance(s, ast.For) and not s.orelse:
            return self.stmt_for(s, env, k)
        if isinstance(s, ast.Try):
            return self.stmt_try(s, env, k)
        self.fail("statement %s" % ast.unparse(s).split("\n")[0][:60], s)

    def stmt_return(self, s, env):
        v = s.value
        if v is None:
            return self.ret(None, s)
        if self_attr(v) in self.ci["locks"]:
            return self.ret(T("tt", "unit"), s)
        if self.self_call(v):
            h, call = self.call_text(v, env)
            if h is self.sig or (h.mode, h.mut, h.ret) == (self.sig.mode, self.sig.mut, self.sig.ret):
                if h is not self.sig and h.retkind != self.sig.retkind and self.sig.retkind:
                    self.fail("return kinds differ", s)
                self.sig.retkind = self.sig.retkind or h.retkind
                return call                                           # tail call: same result shape
            return self.bind_call(v, env, lambda val, env2: self.ret(val, s))
        t = self.expr(v, env)
        if t.kind in ("opt", "alias"):
            self.fail("return of a %s" % t.kind, s)
        return self.guarded(s, lambda: self.ret(t, s))

    def stmt_assign(self, s, tgt, env, k):
        v = s.value
        # a, b = os.path.split(x)
        if isinstance(tgt, ast.Tuple):
            args = os_call(v, "os.path.split")
            if (args is None or len(args) != 1 or len(tgt.elts) != 2
                    or not all(isinstance(x, ast.Name) for x in tgt.elts)):
                self.fail("tuple assignment other than a, b = os.path.split(x)", s)
            x = self.want(self.expr(args[0], env), "path", s)
            a, b = tgt.elts[0].id, tgt.elts[1].id
            root = self.bind(env, a, T("[]", "path", tl_of=(x.txt, True)))
            root.pop(b, None)
            cons = self.bind(self.bind(env, b, T(cname(b), "name")), a, T(cname(a), "path", tl_of=(x.txt, False)))
            return "(match %s with\n | [] =>\n%s\n | %s :: %s =>\n%s\n end)" % (
                x.txt, ind(k(root), 4), cname(b), cname(a), ind(k(cons), 4))
        # stores: self.F[k] = v, alias[k] = v
        if isinstance(tgt, ast.Subscript):
            f = self.field(tgt.value)
            val = self.expr(v, env)
            if f and f[1] == "cnt":
                key = self.want(self.expr(tgt.slice, env), "path", s)
                self.want(val, "nat", s)
                return self.guarded(s, lambda: "%s\n%s" % (self.setf(f[0], "(cnt_set (%s s) %s %s)" % (f[0], key.txt, val.txt)), k(env)))
            if f and f[1] == "idmap":
                key = self.want(self.expr(tgt.slice, env), "path", s)
                if key.txt != val.txt or self.pending:
                    self.fail("store into %s of a value that is not the key itself" % f[0], s)
                return "%s\n%s" % (self.setf(f[0], "(add_path %s (%s s))" % (key.txt, f[0])), k(env))
            if isinstance(tgt.value, ast.Name) and self.expr(tgt.value, env).kind == "alias":
                al = self.expr(tgt.value, env)
                key = self.want(self.expr(tgt.slice, env), "name", s)
                if key.txt != val.txt or self.pending:
                    self.fail("store into an inner dict of a value that is not the key itself", s)
                fld, kt = al.alias
                return "%s\n%s" % (self.setf(fld, "(sub_set (%s s) %s (name_add %s %s))" % (fld, kt, key.txt, self.alias_val(al))), k(env))
            self.fail("store %s" % ast.unparse(tgt), s)
        if not isinstance(tgt, ast.Name):
            self.fail("assignment target %s" % ast.unparse(tgt), s)
        x = tgt.id
        # x = self.F.setdefault(k, {}) / x = self.F[k]  (submap): x aliases the inner dict
        mc = method_call(v)
        f = self.field(mc[0]) if mc else self.field(v.value) if isinstance(v, ast.Subscript) else None
        if f and f[1] == "submap" and (isinstance(v, ast.Subscript) or mc[1] == "setdefault"):
            if mc and not (len(mc[2]) == 2 and isinstance(mc[2][1], ast.Dict) and not mc[2][1].keys):
                self.fail("setdefault with a default other than {}", s)
            key = self.want(self.expr(mc[2][0] if mc else v.slice, env), "path", s)
            get = "sub_get (%s s) %s" % (f[0], key.txt)
            env2 = self.bind(env, x, T("<alias %s>" % x, "alias", alias=(f[0], key.txt)))
            if mc:
                return "%s\n%s" % (self.setf(f[0], "(match %s with Some _ => %s s | None => sub_set (%s s) %s [] end)"
                                             % (get, f[0], f[0], key.txt)), k(env2))
            return "(match %s with\n | None => %s\n | Some _ =>\n%s\n end)" % (get, self.kerr(s), ind(k(env2), 4))
        t = self.expr(v, env)
        if t.kind == "alias":
            self.fail("copy of an alias", s)
        if isinstance(v, ast.Name) or os_call(v, "os.path.normcase") is not None:
            return self.guarded(s, lambda: k(self.bind(env, x, T(t.txt, t.kind, inner=t.inner, defn=t.defn))))   # synonym
        env2 = self.bind(env, x, T(cname(x), t.kind, inner=t.inner, defn=t.txt))
        return self.guarded(s, lambda: "let %s := %s in\n%s" % (cname(x), t.txt, k(env2)))

    def stmt_call(self, s, env, k):
        e = s.value
        if self.self_call(e):
            return self.bind_call(e, env, lambda val, env2: k(env2))
        mc = method_call(e)
        if not mc:
            self.fail("call statement %s" % ast.unparse(e)[:60], s)
        recv, attr, args = mc
        f = self.field(recv)
        argt = [self.expr(a, env) for a in args]
        if self.pending:
            self.fail("KeyError-raising argument", s)
        def one(kind):
            if len(argt) != 1:
                self.fail("arity of .%s" % attr, s)
            return self.want(argt[0], kind, s).txt
        if f and f[1] == "set" and attr in ("add", "discard"):
            fn = "add_path" if attr == "add" else "del_path"
            return "%s\n%s" % (self.setf(f[0], "(%s %s (%s s))" % (fn, one("path"), f[0])), k(env))
        if f and f[1] == "set" and attr == "remove":
            return "(if mem_path %s (%s s) then\n%s\n else %s)" % (
                one("path"), f[0], ind("%s\n%s" % (self.setf(f[0], "(del_path %s (%s s))" % (one("path"), f[0])), k(env)), 4),
                self.kerr(s))
        if f and f[1] == "set" and attr == "clear" and not args:
            return "%s\n%s" % (self.setf(f[0], "[]"), k(env))
        if f and f[1] in ("cnt", "submap") and attr == "pop":
            d = "cnt" if f[1] == "cnt" else "sub"
            env2 = {n: v for n, v in env.items() if not (v.alias and v.alias[0] == f[0])}
            return "(match %s_get (%s s) %s with\n | None => %s\n | Some _ =>\n%s\n end)" % (
                d, f[0], one("path"), self.kerr(s),
                ind("%s\n%s" % (self.setf(f[0], "(%s_del (%s s) %s)" % (d, f[0], one("path"))), k(env2)), 4))
        if isinstance(recv, ast.Name) and recv.id in env:
            x = env[recv.id]
            if x.kind == "alias" and attr == "pop":
                fld, kt = x.alias
                return "(if mem_str %s %s then\n%s\n else %s)" % (
                    one("name"), self.alias_val(x),
                    ind("%s\n%s" % (self.setf(fld, "(sub_set (%s s) %s (del_str %s %s))" % (fld, kt, one("name"), self.alias_val(x))), k(env)), 4),
                    self.kerr(s))
            if x.kind in ("emptylist", "paths") and attr == "append" and x.txt == cname(recv.id):
                env2 = self.bind(env, recv.id, T(x.txt, "paths"))
                return "let %s := %s ++ [%s] in\n%s" % (x.txt, x.txt, one("path"), k(env2))
        self.fail("call statement %s" % ast.unparse(e)[:60], s)

    def stmt_if(self, s, env, k):
        inner, neg = s.test, False
        while isinstance(inner, ast.UnaryOp) and isinstance(inner.op, ast.Not):
            inner, neg = inner.operand, not neg
        then = lambda env2: self.block(s.body, env2, k)
        other = lambda env2: self.block(s.orelse, env2, k)
        ite = lambda c, a, b: "(if %s then\n%s\n else\n%s)" % (c, ind(a, 4), ind(b, 4))
        if self.self_call(inner):                                  # if [not] self._m(args):
            def after(val, env2):
                self.want(val, "bool", s)
                return ite("negb %s" % val.txt if neg else val.txt, then(env2), other(env2))
            return self.bind_call(inner, env, after)
        if (isinstance(inner, ast.Compare) and len(inner.ops) == 1 and isinstance(inner.ops[0], (ast.Is, ast.IsNot))
                and isinstance(inner.comparators[0], ast.Constant) and inner.comparators[0].value is None):
            some_first = isinstance(inner.ops[0], ast.IsNot) != neg
            a, b = (then, other) if some_first else (other, then)
            mc = method_call(inner.left)
            f = self.field(mc[0]) if mc else None
            if (f and f[1] == "idmap" and mc[1] == "pop" and len(mc[2]) == 2
                    and isinstance(mc[2][1], ast.Constant) and mc[2][1].value is None):   # F.pop(k, None) is [not] None
                key = self.want(self.expr(mc[2][0], env), "path", s)
                c = self.fresh("had")
                return self.guarded(s, lambda: "let %s := mem_path %s (%s s) in\n%s\n%s" % (
                    c, key.txt, f[0], self.setf(f[0], "(del_path %s (%s s))" % (key.txt, f[0])), ite(c, a(env), b(env))))
            if isinstance(inner.left, ast.Name) and self.expr(inner.left, env).kind == "opt":   # x is [not] None
                x = self.expr(inner.left, env)
                n = inner.left.id
                env2 = self.bind(env, n, T(cname(n), x.inner))
                envn = {q: v for q, v in env.items() if q != n}
                return "(match %s with\n | Some %s =>\n%s\n | None =>\n%s\n end)" % (
                    x.txt, cname(n), ind(a(env2), 4), ind(b(envn), 4))
            self.fail("`is None` test %s" % ast.unparse(inner)[:60], s)
        if isinstance(inner, ast.Name) and self.expr(inner, env).kind == "alias":       # if x:  (inner dict non-empty)
            c = T("(nonempty %s)" % self.alias_val(self.expr(inner, env)), "bool")
            if neg:
                c = T("(negb %s)" % c.txt, "bool")
        else:
            c = self.want(self.expr(s.test, env), "bool", s)
        if c.const is not None:
            return self.guarded(s, lambda: then(env) if c.const else other(env))
        return self.guarded(s, lambda: ite(c.txt, then(env), other(env)))

    # ---- loops ----
    def loop_fn(self, body_nodes, env, exclude):
        """name of a new top-level loop function and the variables of env its body reads"""
        self.nloops += 1
        names = {n.id for b in body_nodes for n in ast.walk(b) if isinstance(n, ast.Name)}
        free = [n for n in env if n in names and n not in exclude]
        for n in free:
            if env[n].kind not in KTYPE:
                self.fail("a loop body uses the %s %r defined outside it" % (env[n].kind, n), body_nodes[0])
        return "%s_loop%d" % (self.gname, self.nloops), free

    def stmt_while(self, s, env, k):
        t, body = s.test, s.body
        def is_up(st, p):      # p = os.path.dirname(p)
            return (isinstance(st, ast.Assign) and len(st.targets) == 1 and isinstance(st.targets[0], ast.Name)
                    and st.targets[0].id == p and os_call(st.value, "os.path.dirname") is not None
                    and ast.unparse(st.value.args[0]) == p)
        saved = (self.ret_ok, self.brk)
        if (isinstance(t, ast.Compare) and len(t.ops) == 1 and isinstance(t.ops[0], ast.NotEq)
                and isinstance(t.left, ast.Name) and isinstance(t.comparators[0], ast.Name)):
            # climb: while parent != prev: BODY; prev = parent; parent = os.path.dirname(parent)
            p, q = t.left.id, t.comparators[0].id
            if (len(body) < 2 or not is_up(body[-1], p) or ast.unparse(body[-2]) != "%s = %s" % (q, p)
                    or p not in env or q not in env or env[p].defn != "(dirname %s)" % env[q].txt):
                self.fail("while %s != %s: not the climbing shape" % (p, q), s)
            body = body[:-2]
            changed = {n.targets[0].id for b in body for n in ast.walk(b)
                       if isinstance(n, ast.Assign) and isinstance(n.targets[0], ast.Name)}
            changed |= {method_call(n)[0].id for b in body for n in ast.walk(b)
                        if method_call(n) and method_call(n)[1] == "append" and isinstance(method_call(n)[0], ast.Name)}
            carried = [n for n in env if n in changed and n not in (p, q)]
            fname, free = self.loop_fn(body, env, [p, q] + carried)
            for n in carried:
                if env[n].kind not in KTYPE or env[n].txt != cname(n):
                    self.fail("loop changes %r, which is not a plain local" % n, s)
            benv = {n: T(cname(n), env[n].kind) for n in free + carried}
            benv[q] = T(cname(q), "path")
            benv[p] = T(cname(p), "path")
            pack = lambda e: self.result((["s"] if self.sig.mut else []) + [e[n].txt for n in carried] or ["tt"])
            again = lambda e: "%s %s" % (fname, " ".join([cname(n) for n in free] + [e[p].txt] + ["s"] + [e[n].txt for n in carried]))
            self.ret_ok, self.brk = False, pack
            btxt = self.block(body, benv, again)
            self.ret_ok, self.brk = saved
            types = ([self.S] if self.sig.mut else []) + [KTYPE[env[n].kind] for n in carried] or ["unit"]
            rt = " * ".join(types)
            self.aux.append("Fixpoint %s %s(%s : path) (s : %s) %s{struct %s} : %s :=\n  match %s with\n  | [] => %s\n  | _ :: %s =>\n%s\n  end.\n" % (
                fname, "".join("(%s : %s) " % (cname(n), KTYPE[env[n].kind]) for n in free), cname(q), self.S,
                "".join("(%s : %s) " % (cname(n), KTYPE[env[n].kind]) for n in carried), cname(q),
                "option (%s)" % rt if self.mode == "opt" else rt, cname(q), pack(benv), cname(p), ind(btxt, 6)))
            call = "%s %s" % (fname, " ".join([env[n].txt for n in free] + [env[q].txt, "s"] + [env[n].txt for n in carried]))
            pat = (["s"] if self.sig.mut else []) + [cname(n) for n in carried] or ["_"]
            pat = pat[0] if len(pat) == 1 else "'(%s)" % ", ".join(pat)
            env2 = {n: v for n, v in env.items() if n not in (p, q)}
            for n in carried:
                env2 = self.bind(env2, n, T(cname(n), benv[n].kind if benv[n].kind != "emptylist" else "paths"))
            if self.mode == "opt":
                return "(match %s with\n | None => None\n | Some %s =>\n%s\n end)" % (call, pat.lstrip("'"), ind(k(env2), 4))
            if self.mode == "scan":
                self.fail("climbing loop in a method that calls os.listdir", s)
            return "let %s := %s in\n%s" % (pat, call, k(env2))
        # ascend: while GUARD: BODY; p = os.path.dirname(p)   with `p not in self.F` in GUARD, self.F.add(p) in BODY
        if not body or not isinstance(body[-1], ast.Assign) or not isinstance(body[-1].targets[0], ast.Name):
            self.fail("while loop: neither the climbing nor the ascending shape", s)
        p = body[-1].targets[0].id
        conj = t.values if isinstance(t, ast.BoolOp) and isinstance(t.op, ast.And) else [t]
        visited = {ast.unparse(c.comparators[0]) for c in conj
                   if isinstance(c, ast.Compare) and len(c.ops) == 1 and isinstance(c.ops[0], ast.NotIn)
                   and ast.unparse(c.left) == p and self.field(c.comparators[0]) and self.field(c.comparators[0])[1] == "set"}
        marks = [ast.unparse(b) for b in body[:-1]]
        sets = [v for v in visited if "%s.add(%s)" % (v, p) in marks
                and not any(m.startswith(v + ".") and not m.endswith(".add(%s)" % p) for m in marks)]
        if not is_up(body[-1], p) or p not in env or env[p].kind != "path" or not sets or self.mode != "pure":
            self.fail("while loop: neither the climbing nor the ascending shape", s)
        for b in body[:-1]:
            for n in ast.walk(b):
                if isinstance(n, (ast.Assign, ast.Break, ast.Return, ast.While, ast.For)):
                    self.fail("ascending loop body may only contain attribute operations and calls", n)
        fname, free = self.loop_fn(body + [t], env, [p])
        benv = {n: T(cname(n), env[n].kind) for n in free}
        benv[p] = T(cname(p), "path")
        self.ret_ok, self.brk = False, None
        guard = self.want(self.expr(t, benv), "bool", s)
        up = cname(p) + "'"
        again = lambda e: "(match %s with\n | [] => (s, [])\n | _ :: %s => %s %s\n end)" % (
            cname(p), up, fname, " ".join([cname(n) for n in free] + [up, "s"]))
        btxt = self.block(body[:-1], benv, again)
        self.ret_ok, self.brk = saved
        if self.pending:
            self.fail("KeyError-raising loop guard", s)
        self.aux.append("Fixpoint %s %s(%s : path) (s : %s) {struct %s} : %s * path :=\n  if %s then\n%s\n  else (s, %s).\n" % (
            fname, "".join("(%s : %s) " % (cname(n), KTYPE[env[n].kind]) for n in free), cname(p), self.S, cname(p),
            self.S, guard.txt, ind(btxt, 4), cname(p)))
        env2 = self.bind(env, p, T(cname(p), "path"))
        return "let '(s, %s) := %s %s in\n%s" % (cname(p), fname, " ".join([env[n].txt for n in free] + [env[p].txt, "s"]), k(env2))

    def stmt_for(self, s, env, k):
        if not isinstance(s.target, ast.Name) or not isinstance(s.iter, ast.Name):
            self.fail("for loop over something other than a local listing", s)
        it = self.want(self.expr(s.iter, env), "names", s)
        for b in s.body:
            for n in ast.walk(b):
                if isinstance(n, ast.Break) or (method_call(n) and method_call(n)[1] == "append"):
                    self.fail("break / accumulation inside a for loop", n)
                if isinstance(n, ast.Assign) and isinstance(n.targets[0], ast.Name) and n.targets[0].id in env:
                    self.fail("for loop body changes the local %r" % n.targets[0].id, n)
        x = s.target.id
        saved = self.brk
        self.brk = None
        body = self.block(s.body, self.bind(env, x, T(cname(x), "name")), lambda e: "loop xs' s")
        self.brk = saved
        return "(fix loop (xs : list name) (s : %s) {struct xs} :=\n   match xs with\n   | [] =>\n%s\n   | %s :: xs' =>\n%s\n   end) %s s" % (
            self.S, ind(k(env), 6), cname(x), ind(body, 6), it.txt)

    def stmt_try(self, s, env, k):
        st = s.body[0] if len(s.body) == 1 else None
        args = os_call(st.value, "os.listdir") if isinstance(st, ast.Assign) else None
        if (args is None or len(args) != 1 or len(st.targets) != 1 or not isinstance(st.targets[0], ast.Name)
                or s.orelse or s.finalbody or self.mode != "scan"):
            self.fail("try statement other than `try: x = os.listdir(e)` with except clauses", s)
        d = self.want(self.expr(args[0], env), "path", s)
        x = st.targets[0].id
        arms, seen = [], set()
        for h in s.handlers:
            cls = h.type.id if isinstance(h.type, ast.Name) else None
            if cls not in OSERR or cls in seen or h.name:
                self.fail("except clause %s" % (ast.unparse(h.type) if h.type else "<bare>"), h)
            seen.add(cls)
            def falls(e, h=h):
                self.fail("except clause does not end in return", h)
            arms.append(" | inr %s =>\n%s" % (OSERR[cls], ind(self.block(h.body, env, falls), 4)))
        return "(match listdir fs %s with\n | inl %s =>\n%s\n%s\n | inr e_ => GOSError s e_\n end)" % (
            d.txt, cname(x), ind(k(self.bind(env, x, T(cname(x), "names"))), 4), "\n".join(arms))

    # ---- whole methods ----
    def param_kinds(self):
        ps = [a.arg for a in self.fn.args.args[1:]]
        a = self.fn.args
        if a.vararg or a.kwarg or a.kwonlyargs or a.defaults or not a.args or a.args[0].arg != "self":
            self.fail("parameter list", self.fn)
        listy = set()
        for n in ast.walk(self.fn):
            if isinstance(n, ast.Call) and isinstance(n.func, ast.Name) and n.func.id == "set" and n.args and isinstance(n.args[0], ast.Name):
                listy.add(n.args[0].id)
            if isinstance(n, (ast.comprehension, ast.For)) and isinstance(n.iter, ast.Name):
                listy.add(n.iter.id)
        return [(p, "paths" if p in listy else "path") for p in ps]

    def translate(self):
        params = self.param_kinds()
        self.sig.params = params
        env = {p: T(cname(p), k) for p, k in params}
        body = self.block(self.fn.body, env, lambda e: self.ret(None, self.fn))
        g = self.sig
        a = KTYPE.get(g.retkind) if g.ret else None
        if g.ret and (a is None or g.retkind == "emptylist"):
            self.fail("cannot type the returned value", self.fn)
        if self.mode == "scan":
            rt = "gres %s %s" % (self.S, "(%s)" % a if a and " " in a else a or "unit")
        else:
            rt = " * ".join(([self.S] if g.mut else []) + ([a] if a else [])) or "unit"
            rt = "option (%s)" % rt if self.mode == "opt" else rt
        sig = ("(fuel : nat) " if g.fueled else "") + ("(fs : fsT) " if g.fs else "") + "(s : %s)" % self.S
        sig += "".join(" (%s : %s)" % (cname(p), KTYPE[k]) for p, k in params)
        if g.rec:
            if self.mode != "scan":
                self.fail("recursive method that does not call os.listdir", self.fn)
            body = "match fuel with\n| O => GFuel\n| S fuel' =>\n%s\nend" % ind(body, 4)
            head = "Fixpoint %s %s {struct fuel} : %s :=\n" % (self.gname, sig, rt)
        else:
            head = "Definition %s %s : %s :=\n" % (self.gname, sig, rt)
        return "".join(a + "\n" for a in self.aux) + head + ind(body) + ".\n"

    def translate_init(self):
        """constructor: every attribute assigned exactly once, locks dropped -> a record"""
        params = self.param_kinds()
        self.sig.params = params
        env = {p: T(cname(p), k) for p, k in params}
        vals = {}
        for st in self.fn.body:
            if isinstance(st, ast.Expr) and isinstance(st.value, ast.Constant):
                continue
            a = self_attr(st.targets[0]) if isinstance(st, ast.Assign) and len(st.targets) == 1 else None
            if a in self.ci["locks"] and ast.unparse(st.value) == "threading.Lock()":
                continue
            if a not in self.ci["fields"] or a in vals:
                self.fail("constructor statement %s" % ast.unparse(st).split("\n")[0][:60], st)
            f, kind = self.ci["fields"][a]
            v = st.value
            if isinstance(v, ast.Dict) and not v.keys and kind != "set":
                vals[a] = "[]"
            elif ast.unparse(v) == "set()" and kind == "set":
                vals[a] = "[]"
            elif (kind == "set" and isinstance(v, ast.Call) and ast.unparse(v.func) == "set" and len(v.args) == 1
                  and isinstance(v.args[0], ast.ListComp) and len(v.args[0].generators) == 1
                  and not v.args[0].generators[0].ifs and isinstance(v.args[0].generators[0].target, ast.Name)):
                gen = v.args[0].generators[0]
                src = self.want(self.expr(gen.iter, env), "paths", st)
                x = gen.target.id
                elt = self.want(self.expr(v.args[0].elt, self.bind(env, x, T(cname(x), "path"))), "path", st)
                vals[a] = "fold_left (fun acc_ %s => add_path %s acc_) %s []" % (cname(x), elt.txt, src.txt)
            else:
                self.fail("constructor value %s" % ast.unparse(v)[:60], st)
        missing = [a for a in self.ci["fields"] if a not in vals]
        if missing:
            self.fail("constructor does not initialise %s" % ", ".join(missing), self.fn)
        rec = ";\n".join("     %s := %s" % (self.ci["fields"][a][0], vals[a]) for a in self.ci["fields"])
        return "Definition %s %s: %s :=\n  {|\n%s\n  |}.\n" % (
            self.gname, "".join("(%s : %s) " % (cname(p), KTYPE[k]) for p, k in params), self.S, rec)


HEADER = """(* GENERATED by tools/translate/bookkeeping_tr.py from file_builder/created_files.py and
   file_builder/build_dirs.py.  Do not edit: regenerate with
     python tools/translate/bookkeeping_tr.py /repo coq/Gen/BookGen.v
   The equalities with the hand-written model are in Proofs/BookGenLaws.v. *)
From Coq Require Import List String Bool Arith.
From FB.Base Require Import PyVal Fs.
From FB.Model Require Import Types CreatedFiles.   (* CreatedFiles: only sub_get / sub_set / sub_del / del_str *)
Import ListNotations.
Open Scope list_scope.

(* outcome of a method that calls os.listdir: normal return, KeyError, an OSError class no except clause
   handles, recursion budget exhausted *)
Inductive gres (S A : Type) : Type :=
| GRet (s : S) (a : A) | GKeyError | GOSError (s : S) (e : oserr) | GFuel.
Arguments GRet {S A} s a.
Arguments GKeyError {S A}.
Arguments GOSError {S A} s e.
Arguments GFuel {S A}.

(* k in d / d.get(k, dflt) on dict<str, int>; the inner dict of dict<str, dict<str, str>>, kept as the list of
   its values (normcase = identity: key = value); d[k] = k on such a dict; bool(d) *)
Definition cnt_mem (l : list (path * nat)) (p : path) : bool :=
  match cnt_get l p with Some _ => true | None => false end.
Definition cnt_get_or (l : list (path * nat)) (p : path) (dflt : nat) : nat :=
  match cnt_get l p with Some n => n | None => dflt end.
Definition sub_at (l : list (path * list name)) (p : path) : list name :=
  match sub_get l p with Some ns => ns | None => [] end.
Definition name_add (n : name) (l : list name) : list name := if mem_str n l then l else l ++ [n].
Definition nonempty (l : list name) : bool := match l with [] => false | _ => true end.
"""


def setters(ci):
    out = ["(* attribute writes of %s *)" % ci["cls"]]
    fs = list(ci["fields"].values())
    for f, kind in fs:
        rec = "; ".join("%s := %s" % (g, "v" if g == f else "%s s" % g) for g, _ in fs)
        out.append("Definition set_%s (s : %s) (v : %s) : %s :=\n  {| %s |}." % (f, ci["state"], FTYPE[kind], ci["state"], rec))
    return "\n".join(out) + "\n"


def translate_class(ci, repo):
    path = os.path.join(repo, "file_builder", ci["file"])
    tree = ast.parse(open(path).read(), path)
    def fail(msg, node):
        raise TranslationError("%s:%d: %s" % (path, getattr(node, "lineno", 0), msg))
    classes = [n for n in tree.body if isinstance(n, ast.ClassDef)]
    for n in tree.body:
        if not isinstance(n, (ast.ClassDef, ast.Import)):
            fail("module-level statement", n)
    if len(classes) != 1 or classes[0].name != ci["cls"] or classes[0].bases or classes[0].decorator_list:
        fail("expected exactly the class %s" % ci["cls"], tree.body[0])
    methods = {}
    for n in classes[0].body:
        if isinstance(n, ast.Expr) and isinstance(n.value, ast.Constant):
            continue
        if not isinstance(n, ast.FunctionDef) or n.decorator_list or n.name in methods:
            fail("class member other than a plain method", n)
        methods[n.name] = n
    if "__init__" not in methods:
        fail("no constructor", classes[0])
    sigs, order = analyse({k: v for k, v in methods.items() if k != "__init__"}, fail)
    sigs["__init__"] = Sig()
    out = [setters(ci), MethodTr(ci, methods["__init__"], sigs, path).translate_init()]
    for name in order:
        out.append(MethodTr(ci, methods[name], sigs, path).translate())
    return "\n".join(out)


def main():
    if len(sys.argv) != 3:
        print("usage: bookkeeping_tr.py <repo_dir> <output.v>")
        sys.exit(1)
    repo, out_path = sys.argv[1], sys.argv[2]
    try:
        txt = HEADER + "\n" + "\n".join(translate_class(ci, repo) for ci in CLASSES)
    except (TranslationError, SyntaxError, OSError) as e:
        print("TRANSLATION-ERROR bookkeeping: %s" % e)
        sys.exit(1)
    try:
        old = open(out_path).read()
    except FileNotFoundError:
        old = None
    if old != txt:
        with open(out_path, "w") as f:
            f.write(txt)
        print("bookkeeping: regenerated", out_path)
    else:
        print("bookkeeping: unchanged")


if __name__ == "__main__":
    main()
