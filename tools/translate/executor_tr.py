#!/usr/bin/env python3
"""Translate simple_operation_executor.py into Gallina (Gen/ExecGen.v).

    python executor_tr.py <repo_dir> <output.v>

One definition `gen_ex_<method>` per method of SimpleOperationExecutor, in the state+exception monad `M` of
Model/Monad.v over `world`.  The object is the world: its attributes are world fields (table ATTRS), calls into
BuildDirs / Cache / CreatedFiles are calls of the MODEL routines (tables PURE_CALLS / MONADIC_CALLS), the few
things that are not translated structurally are primitives (tables OS_PURE / OS_MONADIC / NODE_ATTRS and the
sha-256 block, defined in the header of the output and listed in EXECGEN_NOTES.md).  Fail-closed: any statement or
expression outside the shapes below ends the run with "TRANSLATION-ERROR executor: <file>:<line>: ..." and exit
status 1; nothing is written.  Deterministic: no sets or hashes are iterated.

Shape of a method.  `self` disappears; parameters are typed by name (table PARAMS); the only default accepted is
`created_files=None`.  The result is `M <kind>`: the kind of the returned values (`bool`; `option bool` when the
method also returns None; `list name`; `pyval`; `unit` when it returns nothing).  A parameter the method appends
to (`results` of `_append_walk`) is an accumulator: the method returns its final value and every caller rebinds
the variable it passed.  A recursive method (and every caller of one) takes `fuel : nat` first; the recursive
method matches on it and raises the exception of table FUEL_EXN when it is exhausted.

Statements are translated in continuation-passing style (the code after an `if` is translated once per branch:
no joins; `return` / `raise` end the text of a path):
  docstrings; `with self._hash_cache_lock:` (lock dropped);
  x = <pure>                      let x := e in              (x = [] is typed by the appends made to x)
  x = <call>                      x <- call ;;               (<call>: self.m(...), a MONADIC_CALLS / OS_MONADIC entry)
  <call>                          call ;;;                   (unit), or  v <- call ;; for an accumulator argument v
  x.append(e)                     let x := x ++ [e] in       (a tuple is injected into pyval: PTuple [...])
  self._hash_cache[k] = (h, b)    hash_put k (h, b) ;;;
  raise C(<message>) / raise      raise (<EXC[C]>) / raise e_ (inside a handler)
  return <pure> / <call> / <call> or <call>     ret e / the call itself / r <- c1 ;; if r then ret true else c2
  if [not] <call>:                r <- call ;; if ...
  if x is [not] None:             match x with Some v => ... | None => ... end   (x is v / Some c inside)
  if x is not None and e:         match x with Some v => if e then A else B | None => B end
  if <pure bool>:                 if e then A else B
  for v in <names>: BODY          a top-level Fixpoint over the list; the locals BODY changes are threaded through
                                  and returned; a recursive call in BODY goes through the parameter `self_rec`;
                                  no return / break / continue / nested loop in BODY
  try: x = <call> except ...      x <- catch call (fun e_ => if <class tests> then HANDLER else ... raise e_) ;;
                                  a handler ends in raise or assigns x
  D = hashlib.sha256(); with open(P, 'rb') as F: B = F.read(N); while len(B) > 0: D.update(B); B = F.read(N);
  H = D.hexdigest()               H <- m_sha256_file P ;;    (exactly this block, any names, N > 0)
A statement that reads the world (an attribute of self, os.path.isfile/isdir/islink) is preceded by
`w<i>_ <- get ;;` and reads that world; arguments of calls may not read the world.
`exec` is the dispatch: it must be exactly the OPERATIONS test + getattr call, OPERATIONS must be the key set of
table QUERIES and every operation must have the parameters of its `query` constructor followed by created_files;
it becomes a match on the query that injects the result into pyval.
The constructor must assign every attribute of ATTRS exactly once from the parameter of PARAMS it comes from.
"""
import ast
import os
import re
import sys

sys.dont_write_bytecode = True
sys.path.insert(0, os.path.dirname(os.path.abspath(__file__)))
from bookkeeping_tr import TranslationError, ind, self_attr, os_call, method_call  # noqa: E402

CLASS, FILE, PREFIX = "SimpleOperationExecutor", "simple_operation_executor.py", "gen_ex_"

# ---- kinds of values and their Coq types ----
KTYPE = {"path": "path", "name": "name", "bool": "bool", "names": "list name", "ocf": "option cfiles",
         "cmp": "cmpmode", "pyval": "pyval", "obool": "option bool", "unit": "unit", "entries": "list pyval",
         "node": "node", "ohash": "option (pyval * bool)", "hashent": "(pyval * bool)", "oop": "option op",
         "cache": "cache", "bdirs": "bdirs"}
# ---- parameters, typed by name ----
PARAMS = {"filename": "path", "dir_": "path", "norm_cased_filename": "path", "created_files": "ocf",
          "file_comparison_name": "cmp", "top_down": "bool", "results": "entries",
          "cache_filename": "path", "old_cache": "cache", "new_cache": "cache", "build_dirs": "bdirs"}
# ---- attributes of self = fields of the world: attribute -> (projection, kind, constructor parameter) ----
ATTRS = {"_norm_cased_cache_filename": ("w_cachefile", "path", "cache_filename"),
         "_old_cache": ("w_old", "cache", "old_cache"),
         "_new_cache": ("w_new", "cache", "new_cache"),
         "_build_dirs": ("w_bd", "bdirs", "build_dirs"),
         "_hash_cache": ("w_hash", "hashmap", None)}
LOCKS = {"_hash_cache_lock"}
WORLD_FIELDS = ["w_fs", "w_clock", "w_nextid", "w_old", "w_new", "w_bd", "w_backups", "w_lost", "w_hash",
                "w_cachefile", "w_log", "w_faults", "w_effects"]
# ---- calls into Cache / CreatedFiles / the memo: (receiver kind, method) -> (model term, argument kinds, kind) ----
PURE_CALLS = {
    ("cache", "has_norm_cased_file"): ("(cache_has_file {recv} {0})", ["path"], "bool"),
    ("cache", "get_norm_cased_file"): ("(cache_get_file {recv} {0})", ["path"], "oop"),
    ("cache", "created_norm_cased_file"): ("(cache_created_file {recv} {0})", ["path"], "bool"),
    ("hashmap", "get"): ("(hash_get {recv} {0})", ["path"], "ohash"),
    ("cfiles", "has_norm_cased_file"): ("(cf_has_file (Some {recv}) {0})", ["path"], "bool"),
    ("cfiles", "has_norm_cased_dir"): ("(cf_has_dir (Some {recv}) {0})", ["path"], "bool"),
    ("cfiles", "list_dir"): ("(cf_list_dir {recv} {0})", ["path"], "names"),
}
# ---- calls into BuildDirs (they change w_bd and can raise): -> the lifted routines of Model/SimpleOps.v ----
MONADIC_CALLS = {
    ("bdirs", "is_removed_norm_case"): ("(m_is_removed {0})", ["path"], "bool"),
    ("bdirs", "handle_norm_cased_dir_exists"): ("(m_handle_dir_exists {0})", ["path"], "unit"),
}
# ---- primitives: os / os.path calls ----
OS_PURE = {   # name -> (term, argument kinds, kind, reads the world)
    "os.path.dirname": ("(dirname {0})", ["path"], "path", False),
    "os.path.join": ("({1} :: {0})", ["path", "name"], "path", False),
    "os.path.isfile": ("(isfile (w_fs {w}) {0})", ["path"], "bool", True),
    "os.path.isdir": ("(isdir (w_fs {w}) {0})", ["path"], "bool", True),
    "os.path.islink": ("(islink (w_fs {w}) {0})", ["path"], "bool", True),
}
OS_MONADIC = {
    "os.listdir": ("(m_listdir {0})", ["path"], "names"),
    "os.stat": ("(m_stat {0})", ["path"], "node"),
    "os.path.getsize": ("(m_getsize {0})", ["path"], "pyval"),
}
NODE_ATTRS = {"st_size": ("(st_size {0})", "pyval"), "st_mtime_ns": ("(st_mtime_ns {0})", "pyval")}
# ---- exceptions ----
EXC = {"FileNotFoundError": "XOS XFileNotFound", "NotADirectoryError": "XOS XNotADirectory",
       "IsADirectoryError": "XOS XIsADirectory", "FileExistsError": "XOS XFileExists",
       "ValueError": 'XCrash "ValueError"'}
EXC_TEST = {"FileNotFoundError": "is_os_class XFileNotFound", "NotADirectoryError": "is_os_class XNotADirectory",
            "IsADirectoryError": "is_os_class XIsADirectory", "FileExistsError": "is_os_class XFileExists",
            "OSError": "is_os"}
FUEL_EXN = {"_append_walk": 'XCrash "walk fuel"'}
# ---- exec: operation name -> (constructor of `query`, kinds of its arguments) ----
QUERIES = {"exists": ("QExists", ["path"]), "is_file": ("QIsFile", ["path"]), "is_dir": ("QIsDir", ["path"]),
           "list_dir": ("QListDir", ["path"]), "walk": ("QWalk", ["path", "bool"]),
           "get_size": ("QGetSize", ["path"]), "read": ("QRead", ["path", "cmp"])}
CMP_NAMES = {"METADATA": "METADATA", "HASH": "HASH"}
EXEC_SRC = ["if name not in SimpleOperationExecutor.OPERATIONS:\n    raise ValueError(<msg>)",
            "return getattr(self, name)(*args + [created_files])"]   # as printed by ast.unparse

RESERVED = {"name", "path", "get", "put", "ret", "raise", "bind", "catch", "modify", "fuel", "fuel'", "self_rec",
            "xs", "xs'", "tt", "true", "false", "Some", "None", "isfile", "isdir", "islink", "lookup", "listdir",
            "dirname", "w", "q", "in", "end", "at", "fun", "fix", "let", "match", "with", "if", "then", "else",
            "return", "as", "exists", "forall", "world", "node", "cache", "op", "query", "map", "fst", "snd", "negb"}


# identifiers the generated text uses: a Python local of the same name is renamed (suffix _py), as is one that
# looks like a generated fresh name (r1_, w2_, ...)
RESERVED |= {"m_listdir", "m_stat", "m_getsize", "m_sha256_file", "m_is_removed", "m_handle_dir_exists", "hash_put",
             "hash_get", "st_isdir", "st_size", "st_mtime_ns", "cache_has_file", "cache_get_file",
             "cache_created_file", "cf_has_file", "cf_has_dir", "cf_list_dir", "sort_strs", "mem_str", "path_eqb",
             "cmp_eqb", "path_str", "is_os", "is_os_class", "PStr", "PList", "PTuple", "PDict", "PBool", "METADATA",
             "HASH", "XOS", "XCrash", "cfiles", "pyval", "cmpmode", "unit", "bool", "list", "option", "nat", "M",
             "S", "O", "andb", "orb", "app"} | set(WORLD_FIELDS)


def cname(n):
    return n + "_py" if n in RESERVED or n.startswith(PREFIX) or re.fullmatch(r"[a-z]+\d+_", n) else n


class T:
    """A translated pure expression: Coq text + kind; .some = the cfiles variable when an `option cfiles` is
    known to be `Some <var>`."""
    def __init__(self, txt, kind, some=None):
        self.txt, self.kind, self.some = txt, kind, some


class Sig:
    def __init__(self):
        self.calls, self.rec, self.fueled, self.out = set(), False, False, None
        self.params, self.retkind, self.has_none, self.has_value = [], None, False, False


def own_nodes(fn):
    return list(ast.walk(fn))


def is_none(e):
    return isinstance(e, ast.Constant) and e.value is None


def self_call_name(e):
    mc = method_call(e)
    if mc and isinstance(mc[0], ast.Name) and mc[0].id == "self":
        return mc[1]
    return None


class Translator:
    def __init__(self, path):
        self.path = path
        self.methods, self.sigs, self.operations = {}, {}, None

    def fail(self, msg, node):
        raise TranslationError("%s:%d: %s" % (self.path, getattr(node, "lineno", 0), msg))

    # ---- file and class ----
    def load(self):
        tree = ast.parse(open(self.path).read(), self.path)
        classes = [n for n in tree.body if isinstance(n, ast.ClassDef)]
        for n in tree.body:
            if not isinstance(n, (ast.ClassDef, ast.Import)):
                self.fail("module-level statement", n)
        if len(classes) != 1 or classes[0].name != CLASS or classes[0].bases or classes[0].decorator_list:
            self.fail("expected exactly the class %s" % CLASS, tree.body[0])
        for n in classes[0].body:
            if isinstance(n, ast.Expr) and isinstance(n.value, ast.Constant) and isinstance(n.value.value, str):
                continue
            if (isinstance(n, ast.Assign) and len(n.targets) == 1 and isinstance(n.targets[0], ast.Name)
                    and n.targets[0].id == "OPERATIONS" and self.operations is None):
                v = n.value
                if not (isinstance(v, ast.Call) and ast.unparse(v.func) == "set" and len(v.args) == 1 and not v.keywords
                        and isinstance(v.args[0], ast.List)
                        and all(isinstance(x, ast.Constant) and isinstance(x.value, str) for x in v.args[0].elts)):
                    self.fail("OPERATIONS is not set([<string literals>])", n)
                self.operations = [x.value for x in v.args[0].elts]
                continue
            if not isinstance(n, ast.FunctionDef) or n.decorator_list or n.name in self.methods:
                self.fail("class member other than a plain method or OPERATIONS", n)
            self.methods[n.name] = n
        for need in ("__init__", "exec"):
            if need not in self.methods:
                self.fail("no method %s" % need, classes[0])
        if self.operations is None:
            self.fail("no OPERATIONS", classes[0])

    def analyse(self):
        """signatures, recursion, fuel, accumulator parameters, translation order (callees first)"""
        plain = [m for m in self.methods if m not in ("__init__", "exec")]
        for name in plain:
            fn, g = self.methods[name], Sig()
            self.sigs[name] = g
            a = fn.args
            if (a.vararg or a.kwarg or a.kwonlyargs or a.posonlyargs or not a.args or a.args[0].arg != "self"
                    or fn.returns is not None):
                self.fail("parameter list", fn)
            ps = [x.arg for x in a.args[1:]]
            if a.defaults and not (len(a.defaults) == 1 and is_none(a.defaults[0]) and ps[-1:] == ["created_files"]):
                self.fail("default value other than created_files=None", fn)
            for p in ps:
                if p not in PARAMS:
                    self.fail("parameter %r is not in the table PARAMS" % p, fn)
            g.params = [(p, PARAMS[p]) for p in ps]
            for n in ast.walk(fn):
                if isinstance(n, (ast.FunctionDef, ast.Lambda, ast.ClassDef, ast.AsyncFunctionDef)) and n is not fn:
                    self.fail("nested definition", n)
                c = self_call_name(n) if isinstance(n, ast.Call) else None
                if c:
                    if c not in self.methods or c in ("__init__", "exec"):
                        self.fail("call of unknown method %s" % c, n)
                    g.calls.add(c)
                mc = method_call(n) if isinstance(n, ast.Call) else None
                if mc and mc[1] == "append" and isinstance(mc[0], ast.Name) and mc[0].id in ps:
                    if g.out not in (None, mc[0].id) or PARAMS[mc[0].id] != "entries":
                        self.fail("appends to the parameter %r" % mc[0].id, n)
                    g.out = mc[0].id
                if isinstance(n, ast.Return) and n.value is not None:
                    if is_none(n.value):
                        g.has_none = True
                    else:
                        g.has_value = True
            g.rec = g.fueled = name in g.calls
            if g.rec and name not in FUEL_EXN:
                self.fail("recursive method without an entry in FUEL_EXN", fn)
            if g.out and (g.has_value or g.has_none):
                self.fail("a method with an accumulator parameter returns a value", fn)
            if g.out:
                g.retkind = "entries"
            elif not g.has_value and not g.has_none:
                g.retkind = "unit"
            elif g.has_none:
                g.retkind = "obool"
            if g.rec and g.retkind is None:
                self.fail("recursive method whose result kind is not known in advance", fn)
        changed = True
        while changed:
            changed = False
            for name in plain:
                g = self.sigs[name]
                if not g.fueled and any(self.sigs[c].fueled for c in g.calls):
                    g.fueled = changed = True
        order, state = [], {}
        def visit(name):
            if state.get(name) == 1:
                self.fail("mutual recursion through %s" % name, self.methods[name])
            if name in state:
                return
            state[name] = 1
            for c in [m for m in plain if m in self.sigs[name].calls and m != name]:
                visit(c)
            state[name] = 2
            order.append(name)
        for name in plain:
            visit(name)
        return order

    # ---- exec and the constructor ----
    def translate_exec(self):
        fn = self.methods["exec"]
        if [a.arg for a in fn.args.args] != ["self", "name", "args", "created_files"] or fn.args.defaults:
            self.fail("parameters of exec", fn)
        body = [s for s in fn.body if not (isinstance(s, ast.Expr) and isinstance(s.value, ast.Constant))]
        srcs = []
        for s in body:
            for n in ast.walk(s):
                if (isinstance(n, ast.Raise) and isinstance(n.exc, ast.Call) and len(n.exc.args) == 1
                        and isinstance(n.exc.args[0], ast.Constant) and isinstance(n.exc.args[0].value, str)):
                    n.exc.args[0] = ast.Name("<msg>", ast.Load())
            srcs.append(ast.unparse(s))
        if srcs != EXEC_SRC:
            self.fail("exec is not the dispatch `if name not in OPERATIONS: raise ValueError; return getattr(...)`", fn)
        if sorted(self.operations) != sorted(QUERIES) or len(set(self.operations)) != len(self.operations):
            self.fail("OPERATIONS %s is not the key set of the table QUERIES" % sorted(self.operations), fn)
        fueled = any(self.sigs[m].fueled for m in QUERIES)
        arms = []
        for m in QUERIES:                                      # table order
            ctor, kinds = QUERIES[m]
            g = self.sigs.get(m)
            if g is None or [k for _, k in g.params] != kinds + ["ocf"] or g.out:
                self.fail("operation %s does not have the parameters of %s followed by created_files" % (m, ctor), fn)
            xs = ["a%d_" % (i + 1) for i in range(len(kinds))]
            call = "%s%s%s %s created_files" % (PREFIX, m.strip("_"), " fuel" if g.fueled else "", " ".join(xs))
            inj = {"bool": "PBool r_", "names": "PList (map PStr r_)", "entries": "PList r_", "pyval": "r_"}.get(g.retkind)
            if inj is None:
                self.fail("operation %s returns a %s" % (m, g.retkind), fn)
            arms.append("  | %s %s => r_ <- %s ;; ret (%s)" % (ctor, " ".join(xs), call, inj))
        return "Definition %sexec %s(q : query) (created_files : option cfiles) : M pyval :=\n  match q with\n%s\n  end.\n" % (
            PREFIX, "(fuel : nat) " if fueled else "", "\n".join(arms))

    def translate_init(self):
        fn = self.methods["__init__"]
        a = fn.args
        if a.vararg or a.kwarg or a.kwonlyargs or a.defaults or not a.args or a.args[0].arg != "self":
            self.fail("parameter list", fn)
        ps = [x.arg for x in a.args[1:]]
        for p in ps:
            if p not in PARAMS:
                self.fail("parameter %r is not in the table PARAMS" % p, fn)
        vals = {}
        for st in fn.body:
            if isinstance(st, ast.Expr) and isinstance(st.value, ast.Constant) and isinstance(st.value.value, str):
                continue
            at = self_attr(st.targets[0]) if isinstance(st, ast.Assign) and len(st.targets) == 1 else None
            if at in LOCKS and ast.unparse(st.value) == "threading.Lock()":
                continue
            if at not in ATTRS or at in vals:
                self.fail("constructor statement %s" % ast.unparse(st).split("\n")[0][:60], st)
            proj, kind, param = ATTRS[at]
            v = st.value
            nc = os_call(v, "os.path.normcase")
            if nc is not None and len(nc) == 1 and kind == "path":
                v = nc[0]
            if param is None and isinstance(v, ast.Dict) and not v.keys:
                vals[at] = "[]"
            elif param is not None and isinstance(v, ast.Name) and v.id == param and param in ps:
                vals[at] = cname(param)
            else:
                self.fail("constructor value %s" % ast.unparse(st.value)[:60], st)
        missing = [x for x in ATTRS if x not in vals]
        if missing:
            self.fail("constructor does not initialise %s" % ", ".join(missing), fn)
        byproj = {ATTRS[x][0]: vals[x] for x in ATTRS}
        rec = ";\n".join("     %s := %s" % (f, byproj.get(f, "%s w0" % f)) for f in WORLD_FIELDS)
        return "Definition %sinit %s(w0 : world) : world :=\n  {|\n%s\n  |}.\n" % (
            PREFIX, "".join("(%s : %s) " % (cname(p), KTYPE[PARAMS[p]]) for p in ps), rec)

    def run(self):
        self.load()
        order = self.analyse()
        out = [self.translate_init()]
        for name in order:
            out.append(MethodTr(self, name).translate())
        out.append(self.translate_exec())
        return "\n".join(out)


class MethodTr:
    def __init__(self, tr, name):
        self.tr, self.fn, self.sigs = tr, tr.methods[name], tr.sigs
        self.sig = tr.sigs[name]
        self.gname = PREFIX + name.strip("_")
        self.aux, self.nloops, self.nfresh = [], 0, 0
        self.in_pure, self.wv, self.in_loop, self.exc_var = False, None, False, None
        self.loops, self.loop_carried, self.loop_free = {}, None, None

    def fail(self, msg, node):
        self.tr.fail(msg, node)

    def fresh(self, base):
        self.nfresh += 1
        return "%s%d_" % (base, self.nfresh)

    # ---- pure expressions ----
    def world(self, node):
        if not self.in_pure:
            self.fail("an argument of a call reads the world", node)
        if self.wv is None:
            self.wv = self.fresh("w")
        return self.wv

    def pure(self, e, env):
        """translate a pure expression of one statement -> (prefix `w <- get ;;` if it reads the world, T)"""
        saved = (self.in_pure, self.wv)
        self.in_pure, self.wv = True, None
        t = self.expr(e, env)
        pre = "%s <- get ;;\n" % self.wv if self.wv else ""
        self.in_pure, self.wv = saved
        return pre, t

    def want(self, t, kind, node):
        if t.kind == "emptylist" and kind in ("names", "entries"):
            return T(t.txt, kind)
        if t.kind != kind:
            self.fail("expected %s, found %s (%s)" % (kind, t.kind, t.txt), node)
        return t

    def inject(self, t, node):
        """a value stored in a Python tuple / dict that user code sees -> pyval"""
        if t.kind == "path":
            return "PStr (path_str %s)" % t.txt
        if t.kind == "names":
            return "PList (map PStr %s)" % t.txt
        if t.kind == "bool":
            return "PBool %s" % t.txt
        if t.kind == "pyval":
            return t.txt
        self.fail("a %s inside a tuple / dict" % t.kind, node)

    def receiver(self, e, env, node):
        """receiver of a call into another class -> (kind, Coq text) or None"""
        a = self_attr(e)
        if a in ATTRS:
            proj, kind, _ = ATTRS[a]
            return kind, "(%s %s)" % (proj, self.world(node))
        if isinstance(e, ast.Name) and e.id in env and env[e.id].kind == "ocf":
            if not env[e.id].some:
                self.fail("method call on %r, which may be None here" % e.id, node)
            return "cfiles", env[e.id].some
        return None

    def expr(self, e, env):
        if isinstance(e, ast.Constant) and isinstance(e.value, bool):
            return T("true" if e.value else "false", "bool")
        if isinstance(e, ast.Name):
            if e.id not in env:
                self.fail("unknown or no longer valid name %r" % e.id, e)
            return env[e.id]
        if isinstance(e, ast.List) and not e.elts:
            return T("[]", "emptylist")
        if isinstance(e, ast.UnaryOp) and isinstance(e.op, ast.Not):
            return T("(negb %s)" % self.want(self.expr(e.operand, env), "bool", e).txt, "bool")
        if isinstance(e, ast.BoolOp):
            return self.boolop(e, env)
        if isinstance(e, ast.Compare) and len(e.ops) == 1:
            return self.compare(e, e.ops[0], e.left, e.comparators[0], env)
        if isinstance(e, ast.Attribute):
            a = self_attr(e)
            if a in ATTRS and ATTRS[a][1] in KTYPE:
                return T("(%s %s)" % (ATTRS[a][0], self.world(e)), ATTRS[a][1])
            if isinstance(e.value, ast.Name) and e.attr in NODE_ATTRS:
                x = self.want(self.expr(e.value, env), "node", e)
                return T(NODE_ATTRS[e.attr][0].format(x.txt), NODE_ATTRS[e.attr][1])
        if (isinstance(e, ast.Subscript) and isinstance(e.ctx, ast.Load) and isinstance(e.slice, ast.Constant)
                and e.slice.value in (0, 1) and not isinstance(e.slice.value, bool)):
            x = self.want(self.expr(e.value, env), "hashent", e)
            return T("(%s %s)" % (("fst", "snd")[e.slice.value], x.txt), ("pyval", "bool")[e.slice.value])
        if isinstance(e, ast.Dict) and e.keys and all(isinstance(k, ast.Constant) and isinstance(k.value, str) and k.value.isidentifier() for k in e.keys):
            items = ['(PStr "%s", %s)' % (k.value, self.inject(self.expr(v, env), e)) for k, v in zip(e.keys, e.values)]
            return T("(PDict [%s])" % "; ".join(items), "pyval")
        if isinstance(e, ast.Call) and not e.keywords:
            return self.call(e, env)
        self.fail("expression %s" % ast.unparse(e)[:60], e)

    def boolop(self, e, env):
        isand = isinstance(e.op, ast.And)
        # `x is None or REST` / `x is not None and REST` with x an `option cfiles`: a match that makes x known in REST
        f = e.values[0]
        if (isinstance(f, ast.Compare) and len(f.ops) == 1 and is_none(f.comparators[0]) and isinstance(f.left, ast.Name)
                and isinstance(f.ops[0], ast.IsNot if isand else ast.Is) and f.left.id in env
                and env[f.left.id].kind == "ocf" and not env[f.left.id].some and env[f.left.id].txt != "None"):
            x = f.left.id
            c = self.fresh("c")
            env2 = dict(env)
            env2[x] = T("(Some %s)" % c, "ocf", some=c)
            rest = e.values[1:]
            r = self.want(self.expr(rest[0] if len(rest) == 1 else ast.BoolOp(e.op, rest), env2), "bool", e)
            return T("(match %s with None => %s | Some %s => %s end)" % (
                env[x].txt, "false" if isand else "true", c, r.txt), "bool")
        xs = [self.want(self.expr(x, env), "bool", e).txt for x in e.values]
        r = xs[-1]
        for x in reversed(xs[:-1]):
            r = "(%s %s %s)" % ("andb" if isand else "orb", x, r)
        return T(r, "bool")

    def compare(self, e, op, l, r, env):
        if isinstance(op, (ast.In, ast.NotIn)):
            a, c = self.want(self.expr(l, env), "name", e), self.want(self.expr(r, env), "names", e)
            txt = "(mem_str %s %s)" % (a.txt, c.txt)
            return T(txt if isinstance(op, ast.In) else "(negb %s)" % txt, "bool")
        if isinstance(op, (ast.Eq, ast.NotEq)):
            a = self.expr(l, env)
            if a.kind == "cmp" and isinstance(r, ast.Constant) and r.value in CMP_NAMES:
                txt = "(cmp_eqb %s %s)" % (a.txt, CMP_NAMES[r.value])
            else:
                b = self.expr(r, env)
                fn = {"path": "path_eqb", "bool": "Bool.eqb"}.get(a.kind)
                if fn is None or b.kind != a.kind:
                    self.fail("comparison of a %s with a %s" % (a.kind, b.kind), e)
                txt = "(%s %s %s)" % (fn, a.txt, b.txt)
            return T(txt if isinstance(op, ast.Eq) else "(negb %s)" % txt, "bool")
        if isinstance(op, (ast.Is, ast.IsNot)) and isinstance(r, ast.Constant) and isinstance(r.value, bool):
            a = self.want(self.expr(l, env), "obool", e)                  # x is False / x is True
            v = "true" if r.value else "false"
            txt = "(match %s with Some %s => true | _ => false end)" % (a.txt, v)
            return T(txt if isinstance(op, ast.Is) else "(negb %s)" % txt, "bool")
        self.fail("comparison %s" % ast.unparse(e)[:60], e)

    def call(self, e, env):
        name = ast.unparse(e.func)
        if name == "os.path.normcase" and len(e.args) == 1:           # POSIX: identity
            return self.expr(e.args[0], env)
        if name in OS_PURE:
            fmt, kinds, kind, reads = OS_PURE[name]
            if len(e.args) != len(kinds):
                self.fail("arity of %s" % name, e)
            ts = [self.want(self.expr(a, env), k, e).txt for a, k in zip(e.args, kinds)]
            return T(fmt.format(*ts, w=self.world(e) if reads else ""), kind)
        if name == "stat.S_ISDIR" and len(e.args) == 1 and isinstance(e.args[0], ast.Attribute) and e.args[0].attr == "st_mode":
            return T("(st_isdir %s)" % self.want(self.expr(e.args[0].value, env), "node", e).txt, "bool")
        if name == "sorted" and len(e.args) == 1:
            return T("(sort_strs %s)" % self.want(self.expr(e.args[0], env), "names", e).txt, "names")
        if name == "set" and len(e.args) == 1:
            # set([os.path.normcase(x) for x in L]) (normcase = identity), used for membership only: the list L
            c = e.args[0]
            if (isinstance(c, ast.ListComp) and len(c.generators) == 1 and not c.generators[0].ifs
                    and not c.generators[0].is_async and isinstance(c.generators[0].target, ast.Name)):
                x = c.generators[0].target.id
                elt = c.elt
                nc = os_call(elt, "os.path.normcase")
                if nc is not None and len(nc) == 1:
                    elt = nc[0]
                if isinstance(elt, ast.Name) and elt.id == x:
                    return self.want(self.expr(c.generators[0].iter, env), "names", e)
        mc = method_call(e)
        if mc:
            rk = self.receiver(mc[0], env, e)
            if rk and (rk[0], mc[1]) in PURE_CALLS:
                fmt, kinds, kind = PURE_CALLS[(rk[0], mc[1])]
                if len(mc[2]) != len(kinds):
                    self.fail("arity of %s" % mc[1], e)
                ts = [self.want(self.expr(a, env), k, e).txt for a, k in zip(mc[2], kinds)]
                return T(fmt.format(*ts, recv=rk[1]), kind)
        self.fail("call %s" % ast.unparse(e)[:60], e)

    # ---- calls in the monad ----
    def mcall(self, e, env):
        """e is a call that runs in M -> (Coq text, result kind, accumulator variable or None); None otherwise"""
        if not isinstance(e, ast.Call):
            return None
        name = ast.unparse(e.func)
        table = None
        if name in OS_MONADIC:
            table, args = OS_MONADIC[name], e.args
        else:
            mc = method_call(e)
            a = self_attr(mc[0]) if mc else None
            if a in ATTRS and (ATTRS[a][1], mc[1]) in MONADIC_CALLS:
                table, args = MONADIC_CALLS[(ATTRS[a][1], mc[1])], mc[2]
        if table:
            fmt, kinds, kind = table
            if e.keywords or len(args) != len(kinds):
                self.fail("arity of %s" % name, e)
            return fmt.format(*[self.want(self.expr(x, env), k, e).txt for x, k in zip(args, kinds)]), kind, None
        m = self_call_name(e)
        if m is None:
            return None
        if e.keywords:
            self.fail("keyword argument", e)
        h = self.sigs[m]
        ps = h.params
        args = list(e.args)
        if len(args) == len(ps) - 1 and ps and ps[-1][0] == "created_files" and self.tr.methods[m].args.defaults:
            args.append(ast.Constant(None))
        if len(args) != len(ps):
            self.fail("arity of %s" % m, e)
        ts, outvar = [], None
        for a, (p, k) in zip(args, ps):
            if is_none(a) and k == "ocf":
                ts.append("None")
                continue
            t = self.want(self.expr(a, env), k, e)
            if p == h.out:
                if not isinstance(a, ast.Name):
                    self.fail("accumulator argument that is not a local", e)
                outvar = a.id
            ts.append(t.txt)
        if h.retkind is None:
            self.fail("result kind of %s is not known yet" % m, e)
        if h is self.sig:
            head = "self_rec" if self.in_loop else "%s fuel'" % self.gname
        else:
            head = PREFIX + m.strip("_") + (" fuel" if h.fueled else "")
        return "(%s %s)" % (head, " ".join(ts)), h.retkind, outvar

    # ---- results ----
    def set_retkind(self, kind, node):
        g = self.sig
        if kind == "emptylist":
            self.fail("cannot type the returned list", node)
        if g.retkind is None:
            g.retkind = kind
        if g.retkind != kind:
            self.fail("return kinds %s and %s" % (g.retkind, kind), node)

    def ret_pure(self, t, node):
        g = self.sig
        if g.retkind == "obool":
            if t.kind == "bool":
                return "ret (Some %s)" % t.txt
            if t.kind == "obool":
                return "ret %s" % t.txt
            self.fail("return of a %s from a method that returns True / False / None" % t.kind, node)
        self.set_retkind(t.kind, node)
        return "ret %s" % t.txt

    def fall_off(self, env, node):
        g = self.sig
        if g.out:
            return "ret %s" % self.want(env[g.out], "entries", node).txt
        if g.retkind == "unit":
            return "ret tt"
        if g.retkind == "obool":
            return "ret None"
        self.fail("method mixes `return <value>` and falling off the end", node)

    # ---- statements, in continuation-passing style: k(env) is the text of what follows ----
    def block(self, stmts, env, k):
        if not stmts:
            return k(env)
        sha = self.sha_block(stmts, env)
        if sha:
            p, h = sha
            env2 = dict(env)
            env2[h] = T(cname(h), "pyval")
            return "%s <- (m_sha256_file %s) ;;\n%s" % (cname(h), p, self.block(stmts[3:], env2, k))
        return self.stmt(stmts[0], env, stmts[1:], lambda env2: self.block(stmts[1:], env2, k))

    def sha_block(self, stmts, env):
        """the chunked sha-256 of a file (primitive): -> (path text, variable holding the hex digest)"""
        if len(stmts) < 3 or ast.unparse(stmts[0].value if isinstance(stmts[0], ast.Assign) else stmts[0]) != "hashlib.sha256()":
            return None
        s0, s1, s2 = stmts[:3]
        try:
            d = s0.targets[0].id
            it = s1.items[0]
            f, p = it.optional_vars.id, it.context_expr.args[0]
            b = s1.body[0].targets[0].id
            n = s1.body[0].value.args[0].value
            h = s2.targets[0].id
        except (AttributeError, IndexError):
            self.fail("hashlib.sha256() outside the chunked-read block", s0)
        expected = ("{d} = hashlib.sha256()\nwith open({p}, 'rb') as {f}:\n    {b} = {f}.read({n})\n    while len({b}) > 0:\n"
                    "        {d}.update({b})\n        {b} = {f}.read({n})\n{h} = {d}.hexdigest()").format(
                        d=d, p=ast.unparse(p), f=f, b=b, n=n, h=h)
        if ("\n".join(ast.unparse(s) for s in stmts[:3]) != expected or not isinstance(n, int) or isinstance(n, bool)
                or n <= 0 or len({d, f, b, h}) != 4 or not isinstance(p, ast.Name) or p.id in (d, f, b, h)):
            self.fail("hashlib.sha256() outside the chunked-read block", s0)
        return self.want(self.expr(p, env), "path", s0).txt, h

    def stmt(self, s, env, rest, k):
        if isinstance(s, ast.Expr) and isinstance(s.value, ast.Constant) and isinstance(s.value.value, str):
            return k(env)
        if isinstance(s, ast.With):
            for it in s.items:
                if it.optional_vars is not None or self_attr(it.context_expr) not in LOCKS:
                    self.fail("`with` on something other than the object's lock", s)
            for b in s.body:
                for n in ast.walk(b):
                    if isinstance(n, (ast.Return, ast.Raise)):
                        self.fail("return / raise inside `with <lock>`", n)
            return self.block(s.body, env, k)
        if isinstance(s, (ast.Return, ast.Raise)) and rest:
            self.fail("dead code after return / raise", rest[0])
        if isinstance(s, ast.Return):
            return self.stmt_return(s, env)
        if isinstance(s, ast.Raise):
            return self.stmt_raise(s, env)
        if isinstance(s, ast.Assign) and len(s.targets) == 1:
            return self.stmt_assign(s, s.targets[0], env, k)
        if isinstance(s, ast.Expr) and isinstance(s.value, ast.Call):
            return self.stmt_call(s, env, k)
        if isinstance(s, ast.If):
            return self.stmt_if(s, env, k)
        if isinstance(s, ast.For) and not s.orelse:
            return self.stmt_for(s, env, k)
        if isinstance(s, ast.Try):
            return self.stmt_try(s, env, k)
        self.fail("statement %s" % ast.unparse(s).split("\n")[0][:60], s)

    def stmt_raise(self, s, env):
        if s.cause is not None:
            self.fail("raise ... from", s)
        if s.exc is None:
            if not self.exc_var:
                self.fail("bare raise outside an except clause", s)
            return "raise %s" % self.exc_var
        x = s.exc
        cls = x.func.id if isinstance(x, ast.Call) and isinstance(x.func, ast.Name) else None
        if cls not in EXC or x.keywords or len(x.args) > 1:
            self.fail("raise %s" % ast.unparse(x)[:60], s)
        for a in x.args:                  # the message: a literal, possibly formatted with locals; not modelled
            ok = isinstance(a, ast.Constant) and isinstance(a.value, str)
            mc = method_call(a)
            if (mc and mc[1] == "format" and isinstance(mc[0], ast.Constant) and isinstance(mc[0].value, str)
                    and all(isinstance(y, ast.Name) and y.id in env for y in mc[2])):
                ok = True
            if not ok:
                self.fail("exception message %s" % ast.unparse(a)[:60], s)
        return "raise (%s)" % EXC[cls]

    def stmt_return(self, s, env):
        if self.in_loop:
            self.fail("return inside a for loop", s)
        if self.sig.out:
            self.fail("return in a method with an accumulator parameter", s)
        v = s.value
        if v is None:
            return self.fall_off(env, s)
        if is_none(v):
            if self.sig.retkind != "obool":
                self.fail("return None", s)
            return "ret None"
        if isinstance(v, ast.BoolOp) and all(self.mcall(x, env) for x in v.values):
            # return c1 or c2 / c1 and c2 on calls: short-circuit, the last call in tail position
            calls = [self.mcall(x, env) for x in v.values]
            for c in calls:
                if c[1] != "bool" or c[2]:
                    self.fail("and / or of calls that do not return bool", s)
            self.set_retkind("bool", s)
            txt = calls[-1][0]
            for c in reversed(calls[:-1]):
                r = self.fresh("r")
                if isinstance(v.op, ast.Or):
                    txt = "%s <- %s ;;\n(if %s then ret true else\n%s)" % (r, c[0], r, ind(txt, 2))
                else:
                    txt = "%s <- %s ;;\n(if %s then\n%s\n else ret false)" % (r, c[0], r, ind(txt, 2))
            return txt
        c = self.mcall(v, env)
        if c:
            call, kind, outvar = c
            if outvar:
                self.fail("return of a call with an accumulator", s)
            if self.sig.retkind == "obool" and kind == "bool":
                r = self.fresh("r")
                return "%s <- %s ;;\nret (Some %s)" % (r, call, r)
            self.set_retkind(kind, s)
            return call                                                   # tail call
        pre, t = self.pure(v, env)
        return pre + self.ret_pure(t, s)

    def list_kind(self, x):
        """element kind of the local list x, from the appends made to it anywhere in the method"""
        kinds = set()
        for n in ast.walk(self.fn):
            mc = method_call(n) if isinstance(n, ast.Call) else None
            if mc and mc[1] == "append" and isinstance(mc[0], ast.Name) and mc[0].id == x and len(mc[2]) == 1:
                kinds.add("entries" if isinstance(mc[2][0], ast.Tuple) else "names")
            m = self_call_name(n) if isinstance(n, ast.Call) else None
            if m and self.sigs[m].out:
                i = [p for p, _ in self.sigs[m].params].index(self.sigs[m].out)
                if i < len(n.args) and isinstance(n.args[i], ast.Name) and n.args[i].id == x:
                    kinds.add("entries")
        return kinds.pop() if len(kinds) == 1 else "emptylist"

    def stmt_assign(self, s, tgt, env, k):
        v = s.value
        if isinstance(tgt, ast.Subscript):
            a = self_attr(tgt.value)
            if (a in ATTRS and ATTRS[a][1] == "hashmap" and isinstance(v, ast.Tuple) and len(v.elts) == 2):
                key = self.want(self.expr(tgt.slice, env), "path", s)
                h = self.want(self.expr(v.elts[0], env), "pyval", s)
                b = self.want(self.expr(v.elts[1], env), "bool", s)
                return "(hash_put %s (%s, %s)) ;;;\n%s" % (key.txt, h.txt, b.txt, k(env))
            self.fail("store %s" % ast.unparse(tgt), s)
        if not isinstance(tgt, ast.Name):
            self.fail("assignment target %s" % ast.unparse(tgt), s)
        x = tgt.id
        if self.in_loop and x in self.loop_free:
            self.fail("loop body assigns %r, which is not threaded through the loop" % x, s)
        if x in PARAMS and x in [p for p, _ in self.sig.params]:
            self.fail("assignment to the parameter %r" % x, s)
        env2 = dict(env)
        c = self.mcall(v, env)
        if c:
            call, kind, outvar = c
            if outvar or kind == "unit":
                self.fail("assignment of a call that returns nothing", s)
            env2[x] = T(cname(x), kind)
            return "%s <- %s ;;\n%s" % (cname(x), call, k(env2))
        pre, t = self.pure(v, env)
        kind = t.kind
        if kind == "emptylist":
            kind = self.list_kind(x)
        if kind not in KTYPE and kind != "emptylist":
            self.fail("assignment of a %s" % kind, s)
        env2[x] = T(cname(x), kind)
        return "%slet %s := %s in\n%s" % (pre, cname(x), t.txt, k(env2))

    def stmt_call(self, s, env, k):
        e = s.value
        c = self.mcall(e, env)
        if c:
            call, kind, outvar = c
            if outvar:
                env2 = dict(env)
                env2[outvar] = T(cname(outvar), "entries")
                self.note_change(outvar, s)
                return "%s <- %s ;;\n%s" % (cname(outvar), call, k(env2))
            if kind != "unit":
                self.fail("the result of a call is dropped", s)
            return "%s ;;;\n%s" % (call, k(env))
        mc = method_call(e)
        if mc and mc[1] == "append" and isinstance(mc[0], ast.Name) and len(mc[2]) == 1 and not e.keywords:
            x = mc[0].id
            if x not in env or env[x].txt != cname(x):
                self.fail("append to %r, which is not a plain local list" % x, s)
            self.note_change(x, s)
            a = mc[2][0]
            if isinstance(a, ast.Tuple):
                pre_parts, items = [], []
                for y in a.elts:
                    items.append(self.inject(self.expr(y, env), s))
                lk, item = "entries", "PTuple [%s]" % "; ".join(items)
            else:
                lk, item = "names", self.want(self.expr(a, env), "name", s).txt
            self.want(env[x], lk, s)
            env2 = dict(env)
            env2[x] = T(cname(x), lk)
            return "let %s := %s ++ [%s] in\n%s" % (cname(x), cname(x), item, k(env2))
        self.fail("call statement %s" % ast.unparse(e)[:60], s)

    def note_change(self, x, node):
        if self.in_loop and x not in self.loop_carried:
            self.fail("loop body changes %r, which is not threaded through the loop" % x, node)

    def stmt_if(self, s, env, k):
        inner, neg = s.test, False
        while isinstance(inner, ast.UnaryOp) and isinstance(inner.op, ast.Not):
            inner, neg = inner.operand, not neg
        then = lambda env2: self.block(s.body, env2, k)
        other = lambda env2: self.block(s.orelse, env2, k)
        ite = lambda c, a, b: "(if %s then\n%s\n else\n%s)" % (c, ind(a, 4), ind(b, 4))
        c = self.mcall(inner, env)
        if c:                                                            # if [not] <call>:
            call, kind, outvar = c
            if kind != "bool" or outvar:
                self.fail("test on a call that does not return bool", s)
            r = self.fresh("r")
            return "%s <- %s ;;\n%s" % (r, call, ite("negb %s" % r if neg else r, then(env), other(env)))
        # x is [not] None  /  x is not None and REST
        first, restc = inner, []
        if isinstance(inner, ast.BoolOp) and isinstance(inner.op, ast.And) and not neg:
            first, restc = inner.values[0], inner.values[1:]
        if (isinstance(first, ast.Compare) and len(first.ops) == 1 and isinstance(first.ops[0], (ast.Is, ast.IsNot))
                and is_none(first.comparators[0]) and (not restc or isinstance(first.ops[0], ast.IsNot))):
            some_first = isinstance(first.ops[0], ast.IsNot) != neg
            pre, x = self.pure(first.left, env)
            inner_kind = {"ocf": "ocf", "obool": "bool", "ohash": "hashent", "oop": None}.get(x.kind, "?")
            if inner_kind == "?":
                self.fail("`is None` test on a %s" % x.kind, s)
            if x.kind == "ocf" and (x.some or x.txt == "None"):
                self.fail("`is None` test on a value already known", s)
            env_s, env_n = dict(env), dict(env)
            v = "_"
            if isinstance(first.left, ast.Name):
                n = first.left.id
                if x.kind == "ocf":
                    v = self.fresh("c")
                    env_s[n], env_n[n] = T("(Some %s)" % v, "ocf", some=v), T("None", "ocf")
                else:
                    v = self.fresh("v")
                    env_s[n] = T(v, inner_kind)
                    del env_n[n]
            elif restc:
                self.fail("`is not None and ...` on something other than a local", s)
            if restc:
                pre2, t = self.pure(restc[0] if len(restc) == 1 else ast.BoolOp(ast.And(), restc), env_s)
                t = self.want(t, "bool", s)
                some_txt = pre2 + ite(t.txt, then(env_s), other(env))
                none_txt = other(env)
            else:
                a, b = (then, other) if some_first else (other, then)
                some_txt, none_txt = a(env_s), b(env_n)
            return "%s(match %s with\n | Some %s =>\n%s\n | None =>\n%s\n end)" % (pre, x.txt, v, ind(some_txt, 4), ind(none_txt, 4))
        pre, t = self.pure(s.test, env)
        return pre + ite(self.want(t, "bool", s).txt, then(env), other(env))

    # ---- loops ----
    def changed_in(self, nodes):
        """locals assigned, appended to or passed as an accumulator in nodes (in order of first occurrence)"""
        out = []
        for b in nodes:
            for n in ast.walk(b):
                x = None
                if isinstance(n, ast.Assign) and len(n.targets) == 1 and isinstance(n.targets[0], ast.Name):
                    x = n.targets[0].id
                mc = method_call(n) if isinstance(n, ast.Call) else None
                if mc and mc[1] == "append" and isinstance(mc[0], ast.Name):
                    x = mc[0].id
                m = self_call_name(n) if isinstance(n, ast.Call) else None
                if m and self.sigs[m].out:
                    i = [p for p, _ in self.sigs[m].params].index(self.sigs[m].out)
                    if i < len(n.args) and isinstance(n.args[i], ast.Name):
                        x = n.args[i].id
                if x and x not in out:
                    out.append(x)
        return out

    def stmt_for(self, s, env, k):
        if self.in_loop:
            self.fail("nested for loop", s)
        if not isinstance(s.target, ast.Name):
            self.fail("for loop target", s)
        x = s.target.id
        for b in s.body:
            for n in ast.walk(b):
                if isinstance(n, (ast.Return, ast.Break, ast.Continue, ast.For, ast.While, ast.Try, ast.With, ast.Raise)):
                    self.fail("%s inside a for loop" % type(n).__name__.lower(), n)
        changed = self.changed_in(s.body)
        if x in changed or x in env:
            self.fail("for loop variable %r is reused" % x, s)
        carried = [n for n in env if n in changed]
        used = {n.id for b in s.body for n in ast.walk(b) if isinstance(n, ast.Name)}
        free = [n for n in env if n in used and n not in carried]
        # the list that is iterated: a local, a pure call, or a call in the monad (evaluated once, before the loop)
        pre = ""
        c = self.mcall(s.iter, env)
        if c:
            call, kind, outvar = c
            if kind != "names" or outvar:
                self.fail("for loop over a call that does not return a list of names", s)
            it = self.fresh("it")
            pre = "%s <- %s ;;\n" % (it, call)
        else:
            if isinstance(s.iter, ast.Name) and s.iter.id in carried:
                self.fail("for loop changes the list it iterates", s)
            pre, t = self.pure(s.iter, env)
            it = self.want(t, "names", s).txt
        ckinds = {}
        for n in carried:
            kd = env[n].kind
            if kd not in ("names", "entries") or env[n].txt != cname(n):
                self.fail("loop changes %r, which is not a plain local list" % n, s)
            ckinds[n] = kd
        for n in free:
            if env[n].kind not in KTYPE:
                self.fail("a loop body uses the %s %r defined outside it" % (env[n].kind, n), s)
        calls = {self_call_name(n) for b in s.body for n in ast.walk(b) if isinstance(n, ast.Call)} - {None}
        rec = self.fn.name in calls
        fuel = any(self.sigs[m].fueled for m in calls if m != self.fn.name)
        # the continuation of an `if` is translated once per branch: the same loop in the same context is emitted once
        key = (id(s), tuple((n, env[n].kind) for n in free), tuple((n, ckinds[n]) for n in carried))
        fname = self.loops.get(key)
        known = fname is not None
        if not known:
            self.nloops += 1
            fname = self.loops[key] = "%s_loop%d" % (self.gname, self.nloops)
        benv = {n: T(cname(n), env[n].kind) for n in free + carried}
        benv[x] = T(cname(x), "name")
        head = ([("self_rec", "%s -> M (%s)" % (" -> ".join(KTYPE[kd] for _, kd in self.sig.params), KTYPE[self.sig.retkind]))] if rec else []) \
            + ([("fuel", "nat")] if fuel else []) + [(cname(n), KTYPE[env[n].kind]) for n in free]
        tail = [(cname(n), KTYPE[ckinds[n]]) for n in carried]
        pack = lambda e: "tt" if not carried else e[carried[0]].txt if len(carried) == 1 else "(%s)" % ", ".join(e[n].txt for n in carried)
        again = lambda e: "%s %s" % (fname, " ".join([a for a, _ in head] + ["xs'"] + [e[n].txt for n in carried]))
        saved = (self.in_loop, self.loop_carried, self.loop_free)
        self.in_loop, self.loop_carried, self.loop_free = True, carried, free
        btxt = "" if known else self.block(s.body, benv, again)
        self.in_loop, self.loop_carried, self.loop_free = saved
        rt = "unit" if not carried else " * ".join(KTYPE[ckinds[n]] for n in carried)
        if not known:
            self.aux.append("Fixpoint %s %s(xs : list name) %s{struct xs} : M (%s) :=\n  match xs with\n  | [] => ret %s\n  | %s :: xs' =>\n%s\n  end.\n" % (
                fname, "".join("(%s : %s) " % a for a in head), "".join("(%s : %s) " % a for a in tail), rt, pack(benv), cname(x), ind(btxt, 6)))
        hargs = (["(%s fuel')" % self.gname] if rec else []) + (["fuel"] if fuel else []) + [env[n].txt for n in free]
        call = "(%s %s)" % (fname, " ".join(hargs + [it] + [env[n].txt for n in carried]))
        env2 = dict(env)
        for n in carried:
            env2[n] = T(cname(n), ckinds[n])
        if not carried:
            return "%s%s ;;;\n%s" % (pre, call, k(env2))
        if len(carried) == 1:
            return "%s%s <- %s ;;\n%s" % (pre, cname(carried[0]), call, k(env2))
        p = self.fresh("p")
        return "%s%s <- %s ;;\nlet '(%s) := %s in\n%s" % (pre, p, call, ", ".join(cname(n) for n in carried), p, k(env2))

    # ---- try ----
    def stmt_try(self, s, env, k):
        if self.in_loop or self.exc_var:
            self.fail("try inside a loop or an except clause", s)
        st = s.body[0] if len(s.body) == 1 else None
        ok = (isinstance(st, ast.Assign) and len(st.targets) == 1 and isinstance(st.targets[0], ast.Name)
              and not s.orelse and not s.finalbody and s.handlers)
        c = self.mcall(st.value, env) if ok else None
        if not c or c[2] or c[1] == "unit":
            self.fail("try statement other than `try: x = <call>` with except clauses", s)
        call, kind, _ = c
        x = st.targets[0].id
        if x in [p for p, _ in self.sig.params]:
            self.fail("assignment to the parameter %r" % x, s)
        e = self.fresh("e")
        arms = []
        for h in s.handlers:
            if h.name or h.type is None:
                self.fail("except clause %s" % ("as " + h.name if h.name else "<bare>"), h)
            clss = h.type.elts if isinstance(h.type, ast.Tuple) else [h.type]
            tests = []
            for cl in clss:
                if not isinstance(cl, ast.Name) or cl.id not in EXC_TEST:
                    self.fail("except clause %s" % ast.unparse(h.type), h)
                tests.append("%s %s" % (EXC_TEST[cl.id], e))
            def falls(env2, h=h):
                if x not in env2 or env2[x].kind not in (kind, "emptylist"):
                    self.fail("except clause neither ends in raise nor assigns %r" % x, h)
                return "ret %s" % env2[x].txt
            henv = {n: v for n, v in env.items() if n != x}
            self.exc_var = e
            arms.append((" || ".join(tests), self.block(h.body, henv, falls)))
            self.exc_var = None
        handler = "raise %s" % e
        for test, body in reversed(arms):
            handler = "(if %s then\n%s\n else\n%s)" % (test, ind(body, 4), ind(handler, 4))
        env2 = dict(env)
        env2[x] = T(cname(x), kind)
        return "%s <- catch %s\n  (fun %s =>\n%s) ;;\n%s" % (cname(x), call, e, ind(handler, 5), k(env2))

    # ---- whole method ----
    def translate(self):
        g = self.sig
        env = {p: T(cname(p), kd) for p, kd in g.params}
        for p, _ in g.params:
            if cname(p) != p:
                self.fail("parameter name %r" % p, self.fn)
        body = self.block(self.fn.body, env, lambda e: self.fall_off(e, self.fn))
        if g.retkind is None or g.retkind not in KTYPE:
            self.fail("cannot type the result", self.fn)
        sig = ("(fuel : nat) " if g.fueled else "") + " ".join("(%s : %s)" % (p, KTYPE[kd]) for p, kd in g.params)
        rt = "M (%s)" % KTYPE[g.retkind]
        if g.rec:
            body = "match fuel with\n| O => raise (%s)\n| S fuel' =>\n%s\nend" % (FUEL_EXN[self.fn.name], ind(body, 4))
            head = "Fixpoint %s %s {struct fuel} : %s :=\n" % (self.gname, sig, rt)
        else:
            head = "Definition %s %s : %s :=\n" % (self.gname, sig, rt)
        return "".join(a + "\n" for a in self.aux) + head + ind(body) + ".\n"


HEADER = """(* GENERATED by tools/translate/executor_tr.py from file_builder/simple_operation_executor.py.
   Do not edit: regenerate with
     python tools/translate/executor_tr.py /repo coq/Gen/ExecGen.v
   The equalities with the hand-written model (Model/SimpleOps.v) are in Proofs/ExecGenLaws.v. *)
From Coq Require Import List String NArith ZArith Bool Arith.
From FB.Base Require Import PyVal Fs.
From FB.Model Require Import Types Monad CreatedFiles BuildDirs SimpleOps.
Import ListNotations.
Open Scope list_scope.
Open Scope m_scope.

(* ---- primitives (the table of tools/translate/EXECGEN_NOTES.md) ---- *)
(* os.listdir(p) *)
Definition m_listdir (p : path) : M (list name) :=
  fun w => match listdir (w_fs w) p with
           | inl l => (w, inl l)
           | inr e => (w, inr (XOS (err_of e)))
           end.
(* os.stat(p): the node itself; S_ISDIR(st_mode), st_size, st_mtime_ns read it (size of a directory inode:
   unspecified, -1 as in Model/SimpleOps.v; its mtime is not modelled) *)
Definition m_stat (p : path) : M node :=
  fun w => match lookup (w_fs w) p with
           | Some n => (w, inl n)
           | None => (w, inr (XOS (err_of (stat_err (w_fs w) p))))
           end.
Definition st_isdir (n : node) : bool := match n with NDir => true | NFile _ => false end.
Definition st_size (n : node) : pyval :=
  match n with NFile f => PInt (Z.of_nat (String.length (f_bytes f))) | NDir => PInt (-1) end.
Definition st_mtime_ns (n : node) : pyval :=
  match n with NFile f => PInt (Z.of_N (f_mtime f)) | NDir => PInt 0 end.
(* os.path.getsize(p) = os.stat(p).st_size *)
Definition m_getsize (p : path) : M pyval := n <- m_stat p ;; ret (st_size n).
(* hashlib.sha256 over the bytes of the file p, read in chunks through open(p, 'rb'): hexdigest *)
Definition m_sha256_file (p : path) : M pyval :=
  fun w => match lookup (w_fs w) p with
           | Some (NFile f) => (w, inl (hash_of (f_bytes f)))
           | Some NDir => (w, inr (XOS XIsADirectory))
           | None => (w, inr (XOS (err_of (stat_err (w_fs w) p))))
           end.
(* os.path.islink(p): the modelled file system has no symbolic links *)
Definition islink (fs : fsT) (p : path) : bool := false.
(* self._hash_cache[k] = v: the memo is an association list in which the first match wins *)
Definition hash_put (k : path) (v : pyval * bool) : M unit :=
  modify (fun w => set_hash ((k, v) :: w_hash w) w).
"""


def main():
    if len(sys.argv) != 3:
        print("usage: executor_tr.py <repo_dir> <output.v>")
        sys.exit(1)
    repo, out_path = sys.argv[1], sys.argv[2]
    try:
        txt = HEADER + "\n" + Translator(os.path.join(repo, "file_builder", FILE)).run()
    except (TranslationError, SyntaxError, OSError) as e:
        print("TRANSLATION-ERROR executor: %s" % e)
        sys.exit(1)
    try:
        old = open(out_path).read()
    except FileNotFoundError:
        old = None
    if old != txt:
        with open(out_path, "w") as f:
            f.write(txt)
        print("executor: regenerated", out_path)
    else:
        print("executor: unchanged")


if __name__ == "__main__":
    main()
