#!/usr/bin/env python3
"""T1a: translate /repo/file_builder/json_util.py into Gallina (Gen/JsonUtilGen.v).

Fail-closed: every statement / expression shape that is not recognised raises
TranslationError.  The principal (first) argument of each method is matched on
its constructor and the Python body is partially evaluated with that class
known, so that recursive calls on elements of the argument are structurally
smaller for Coq's guard checker.  Docstrings, comments and message texts are
ignored.  See DESIGN.md section 4 (T1a) and appendix C.
"""
import ast
import sys

class TranslationError(Exception):
    pass

CTORS = [  # constructor, pattern, class constant, payload kind
    ("PNone", "PNone", "CNone", None),
    ("PBool", "PBool b0", "CBool", None),
    ("PInt", "PInt z0", "CInt", None),
    ("PFloat", "PFloat f0", "CFloat", None),
    ("PStr", "PStr s0", "CStr", None),
    ("PList", "PList l0", "CList", "seq"),
    ("PTuple", "PTuple l0", "CTuple", "seq"),
    ("PDict", "PDict d0", "CDict", "items"),
    ("POther", "POther n0", "COther", None),
]
PYTYPE = {"list": "CList", "tuple": "CTuple", "dict": "CDict", "bool": "CBool",
          "str": "CStr", "int": "CInt", "float": "CFloat"}
# isinstance(x, T): classes of the universe that are instances of T
INSTANCES = {"CList": {"CList"}, "CTuple": {"CTuple"}, "CDict": {"CDict"},
             "CBool": {"CBool"}, "CStr": {"CStr"}, "CInt": {"CInt", "CBool"},
             "CFloat": {"CFloat"}}
COQ_RESERVED = {"value", "key", "result", "cls", "element", "in", "end", "at", "fun", "fix"}

def cname(n):
    return n + "_" if n in COQ_RESERVED or n.endswith("0") else n

class T:
    """A translated expression: Coq text + kind in {val, bool, cls, seq, items, nat}.
    `const` is True/False for statically known booleans."""
    def __init__(self, txt, kind, const=None):
        self.txt, self.kind, self.const = txt, kind, const

def B(v):
    return T("true" if v else "false", "bool", v)

def balanced(s):
    d = 0
    for ch in s:
        d += ch == "("
        d -= ch == ")"
        if d < 0:
            return False
    return d == 0

def b_not(a):
    if a.const is not None:
        return B(not a.const)
    if a.txt.startswith("(negb ") and a.txt.endswith(")") and balanced(a.txt[6:-1]):
        return T(a.txt[6:-1], "bool")
    return T("(negb %s)" % a.txt, "bool")

def b_or(xs):
    out = []
    for x in xs:
        if x.const is True:
            # everything after a statically true disjunct is never evaluated
            out.append(x)
            break
        if x.const is False:
            continue
        out.append(x)
    if not out:
        return B(False)
    if out[-1].const is True and len(out) == 1:
        return B(True)
    r = out[-1]
    for x in reversed(out[:-1]):
        r = T("(orb %s %s)" % (x.txt, r.txt), "bool")
    return r

def b_and(xs):
    out = []
    for x in xs:
        if x.const is False:
            out.append(x)
            break
        if x.const is True:
            continue
        out.append(x)
    if not out:
        return B(True)
    if out[-1].const is False and len(out) == 1:
        return B(False)
    r = out[-1]
    for x in reversed(out[:-1]):
        r = T("(andb %s %s)" % (x.txt, r.txt), "bool")
    return r

def ite(c, a, b):
    if c.const is True:
        return a
    if c.const is False:
        return b
    return "(if %s then %s else %s)" % (c.txt, a, b)

class FuncTr:
    def __init__(self, fn, funcs_ret):
        self.fn = fn
        self.name = fn.name.lstrip("_")
        self.params = [a.arg for a in fn.args.args]
        if not self.params:
            raise TranslationError("method without parameters: " + fn.name)
        self.principal = self.params[0]
        self.funcs_ret = funcs_ret      # name -> ret kind of already known functions
        self.self_calls = False
        self.ret = None

    # ---- return kind inference ----
    def infer_ret(self):
        has_raise = any(isinstance(n, ast.Raise) for n in ast.walk(self.fn))
        rets = [n for n in ast.walk(self.fn) if isinstance(n, ast.Return)]
        allbool = all(self.is_boolish(r.value) for r in rets)
        if has_raise:
            return "oval"
        return "bool" if allbool else "val"

    def is_boolish(self, e):
        if isinstance(e, ast.Constant) and isinstance(e.value, bool):
            return True
        if isinstance(e, ast.Compare):
            return True
        if isinstance(e, ast.BoolOp) or (isinstance(e, ast.UnaryOp) and isinstance(e.op, ast.Not)):
            return True
        return False

    # ---- expressions ----
    def var(self, name, env):
        if name in env:
            return env[name]
        raise TranslationError("unknown name %r in %s" % (name, self.fn.name))

    def expr(self, e, env):
        if isinstance(e, ast.Constant):
            v = e.value
            if v is None:
                return T("PNone", "val")
            if isinstance(v, bool):
                return B(v)
            if isinstance(v, int):
                return T("(PInt (%d)%%Z)" % v, "val")
            if isinstance(v, str):
                if '"' in v or "\\" in v or not v.isascii():
                    raise TranslationError("string constant not supported: %r" % v)
                return T('(PStr "%s")' % v, "val")
            raise TranslationError("constant %r" % (v,))
        if isinstance(e, ast.Name):
            if e.id in PYTYPE:
                return T(PYTYPE[e.id], "cls")
            return self.var(e.id, env)
        if isinstance(e, ast.Attribute) and e.attr == "__class__":
            inner = self.expr(e.value, env)
            return self.class_of(inner)
        if isinstance(e, ast.BoolOp):
            xs = [self.as_bool(self.expr(x, env)) for x in e.values]
            return b_or(xs) if isinstance(e.op, ast.Or) else b_and(xs)
        if isinstance(e, ast.UnaryOp) and isinstance(e.op, ast.Not):
            return b_not(self.as_bool(self.expr(e.operand, env)))
        if isinstance(e, ast.UnaryOp) and isinstance(e.op, ast.USub):
            inner = e.operand
            if self.is_float_inf(inner):
                return T("(PFloat (FInf true))", "val")
            raise TranslationError("unary minus")
        if isinstance(e, ast.Compare):
            if len(e.ops) != 1:
                raise TranslationError("chained comparison")
            return self.compare(e.ops[0], e.left, e.comparators[0], env)
        if isinstance(e, ast.Call):
            return self.call(e, env)
        if isinstance(e, ast.Tuple):
            xs = [self.as_val(self.expr(x, env)) for x in e.elts]
            return T("(PTuple [%s])" % "; ".join(x.txt for x in xs), "val")
        if isinstance(e, ast.BinOp) and isinstance(e.op, ast.Add):
            l, r = self.expr(e.left, env), self.expr(e.right, env)
            lt, rt = self.tuple_elems(l), self.tuple_elems(r)
            if lt is None or rt is None:
                raise TranslationError("'+' on non-tuples")
            return T("(PTuple (%s ++ %s))" % (lt, rt), "val")
        if isinstance(e, ast.ListComp):
            return self.listcomp(e, env)
        if isinstance(e, ast.Subscript):
            d = self.expr(e.value, env)
            k = self.as_val(self.expr(e.slice, env))
            return T("(py_dict_get %s %s)" % (k.txt, self.as_val(d).txt), "val")
        raise TranslationError("expression %s" % ast.dump(e)[:80])

    def is_float_inf(self, e):
        return (isinstance(e, ast.Call) and isinstance(e.func, ast.Name) and e.func.id == "float"
                and len(e.args) == 1 and isinstance(e.args[0], ast.Constant) and e.args[0].value == "inf")

    def tuple_elems(self, t):
        # text of a `list pyval` holding the elements of a tuple-valued expression
        if t.kind == "val" and t.txt.startswith("(PTuple ") and t.txt.endswith(")"):
            return t.txt[len("(PTuple "):-1]
        return None

    def class_of(self, t):
        if getattr(t, "static_cls", None):
            r = T(t.static_cls, "cls")
            r.static = True
            return r
        return T("(class_of %s)" % self.as_val(t).txt, "cls")

    def as_bool(self, t):
        if t.kind == "bool":
            return t
        if t.kind == "val":
            return T("(py_truth %s)" % t.txt, "bool")
        raise TranslationError("not a boolean: " + t.txt)

    def as_val(self, t):
        if t.kind == "val":
            return t
        if t.kind == "bool":
            return T("(PBool %s)" % t.txt, "val")
        if t.kind == "seq":
            return T("(PList %s)" % t.txt, "val")
        raise TranslationError("not a value: %s (%s)" % (t.txt, t.kind))

    def compare(self, op, l, r, env):
        # `x is None`
        if isinstance(op, (ast.Is, ast.IsNot)):
            if not (isinstance(r, ast.Constant) and r.value is None):
                raise TranslationError("'is' with non-None")
            lt = self.expr(l, env)
            sc = getattr(lt, "static_cls", None)
            if sc:
                res = B(sc == "CNone")
            else:
                res = T("(pyclass_eqb (class_of %s) CNone)" % self.as_val(lt).txt, "bool")
            return res if isinstance(op, ast.Is) else b_not(res)
        if isinstance(op, (ast.In, ast.NotIn)):
            k = self.as_val(self.expr(l, env))
            d = self.as_val(self.expr(r, env))
            res = T("(py_dict_mem %s %s)" % (k.txt, d.txt), "bool")
            return res if isinstance(op, ast.In) else b_not(res)
        if not isinstance(op, (ast.Eq, ast.NotEq)):
            raise TranslationError("comparison operator %s" % type(op).__name__)
        lt, rt = self.expr(l, env), self.expr(r, env)
        if lt.kind == "cls" and rt.kind == "cls":
            if getattr(lt, "static", False) and rt.txt in PYTYPE.values():
                res = B(lt.txt == rt.txt)
            else:
                res = T("(pyclass_eqb %s %s)" % (lt.txt, rt.txt), "bool")
        elif lt.kind == "bool" and rt.kind == "bool":
            if lt.const is not None and rt.const is not None:
                res = B(lt.const == rt.const)
            elif lt.const is not None:
                res = rt if lt.const else b_not(rt)
            elif rt.const is not None:
                res = lt if rt.const else b_not(lt)
            else:
                res = T("(Bool.eqb %s %s)" % (lt.txt, rt.txt), "bool")
        elif lt.kind == "nat" and rt.kind == "nat":
            res = T("(Nat.eqb %s %s)" % (lt.txt, rt.txt), "bool")
        elif lt.kind in ("val",) and rt.kind in ("val",):
            res = T("(py_eq %s %s)" % (lt.txt, rt.txt), "bool")
        else:
            raise TranslationError("== between %s and %s" % (lt.kind, rt.kind))
        return res if isinstance(op, ast.Eq) else b_not(res)

    def call(self, e, env):
        f = e.func
        if e.keywords:
            raise TranslationError("keyword arguments")
        # JsonUtil.method(...)
        if isinstance(f, ast.Attribute) and isinstance(f.value, ast.Name) and f.value.id == "JsonUtil":
            name = f.attr.lstrip("_")
            args = [self.as_val(self.expr(a, env)) for a in e.args]
            if name == self.name:
                self.self_calls = True
                kind = {"bool": "bool", "val": "val", "oval": "oval"}[self.ret]
            elif name in self.funcs_ret:
                kind = self.funcs_ret[name]
            else:
                raise TranslationError("call of unknown method " + f.attr)
            return T("(%s %s)" % (name, " ".join(a.txt for a in args)), kind)
        if isinstance(f, ast.Name):
            n = f.id
            if n == "isinstance" and len(e.args) == 2:
                v = self.expr(e.args[0], env)
                ts = e.args[1].elts if isinstance(e.args[1], ast.Tuple) else [e.args[1]]
                cs = []
                for t in ts:
                    if not (isinstance(t, ast.Name) and t.id in PYTYPE):
                        raise TranslationError("isinstance with unknown type")
                    cs.append(PYTYPE[t.id])
                sc = getattr(v, "static_cls", None)
                if sc:
                    return B(any(sc in INSTANCES[c] for c in cs))
                return b_or([T("(isinstance %s %s)" % (self.as_val(v).txt, c), "bool") for c in cs])
            if n == "len" and len(e.args) == 1:
                v = self.expr(e.args[0], env)
                if getattr(v, "payload", None):
                    return T("(List.length %s)" % v.payload, "nat")
                return T("(py_len %s)" % self.as_val(v).txt, "nat")
            if n in ("list", "tuple") and len(e.args) == 1:
                v = self.expr(e.args[0], env)
                ctor = "PList" if n == "list" else "PTuple"
                if v.kind == "seq":
                    return T("(%s %s)" % (ctor, v.txt), "val")
                if v.kind == "oseq":
                    return T("(option_map %s %s)" % (ctor, v.txt), "oval")
                return T("(%s (py_seq %s))" % (ctor, self.as_val(v).txt), "val")
            if n == "float" and self.is_float_inf(e):
                return T("(PFloat (FInf false))", "val")
            if n in ("str", "int", "float", "bool", "repr") and len(e.args) == 1:
                v = self.as_val(self.expr(e.args[0], env))
                if n == "bool":
                    return T("(py_truth %s)" % v.txt, "bool")
                return T("(py_%s %s)" % (n, v.txt), "val")
            if n == "float" and self.is_float_inf(e):
                return T("(PFloat (FInf false))", "val")
        raise TranslationError("call %s" % ast.dump(e)[:80])

    def listcomp(self, e, env):
        if len(e.generators) != 1 or e.generators[0].ifs or not isinstance(e.generators[0].target, ast.Name):
            raise TranslationError("list comprehension shape")
        g = e.generators[0]
        it = self.expr(g.iter, env)
        src = getattr(it, "payload", None) if getattr(it, "payload_kind", None) == "seq" else None
        if src is None:
            src = "(py_seq %s)" % self.as_val(it).txt
        x = cname(g.target.id)
        env2 = dict(env)
        env2[g.target.id] = T(x, "val")
        body = self.expr(e.elt, env2)
        if body.kind == "oval":
            txt = ("((fix go (xs : list pyval) : option (list pyval) := match xs with "
                   "| [] => Some [] | %s :: xs' => obind %s (fun y => obind (go xs') (fun ys => Some (y :: ys))) end) %s)"
                   % (x, body.txt, src))
            return T(txt, "oseq")
        body = self.as_val(body)
        return T("(map (fun %s => %s) %s)" % (x, body.txt, src), "seq")

    # ---- statements ----
    def ret_wrap(self, t):
        if self.ret == "bool":
            return self.as_bool(t).txt
        if self.ret == "val":
            return self.as_val(t).txt
        if t.kind == "oval":
            return t.txt
        return "(Some %s)" % self.as_val(t).txt

    def block(self, stmts, env):
        if not stmts:
            raise TranslationError("control reaches the end of %s without return" % self.fn.name)
        s, rest = stmts[0], stmts[1:]
        if isinstance(s, ast.Expr) and isinstance(s.value, ast.Constant) and isinstance(s.value.value, str):
            return self.block(rest, env)         # docstring
        if isinstance(s, ast.Return):
            return self.ret_wrap(self.expr(s.value, env))
        if isinstance(s, ast.Raise):
            if self.ret != "oval":
                raise TranslationError("raise in non-option function")
            exc = s.exc
            if not (isinstance(exc, ast.Call) and isinstance(exc.func, ast.Name) and exc.func.id == "TypeError"):
                raise TranslationError("raise of something other than TypeError")
            return "None"
        if isinstance(s, ast.Assign) and len(s.targets) == 1 and isinstance(s.targets[0], ast.Name):
            tgt = s.targets[0].id
            # accumulator patterns
            if isinstance(s.value, ast.List) and not s.value.elts:
                return self.acc_list(tgt, rest, env)
            if isinstance(s.value, ast.Dict) and not s.value.keys:
                return self.acc_dict(tgt, rest, env)
            v = self.expr(s.value, env)
            env2 = dict(env)
            if v.kind == "cls" and getattr(v, "static", False):
                env2[tgt] = v
                return self.block(rest, env2)
            if v.kind == "cls":
                env2[tgt] = T(cname(tgt), "cls")
                return "(let %s := %s in %s)" % (cname(tgt), v.txt, self.block(rest, env2))
            raise TranslationError("assignment of kind " + v.kind)
        if isinstance(s, ast.If):
            c = self.as_bool(self.expr(s.test, env))
            if c.const is True:
                return self.block(list(s.body) + self.tail(s.body, rest), env)
            if c.const is False:
                return self.block(list(s.orelse) + rest, env)
            a = self.block(list(s.body) + self.tail(s.body, rest), env)
            b = self.block(list(s.orelse) + rest, env)
            return ite(c, a, b)
        if isinstance(s, ast.For):
            return self.for_exit(s, rest, env)
        raise TranslationError("statement %s" % ast.dump(s)[:80])

    def tail(self, body, rest):
        # statements after an `if` run after its body only if the body can fall through
        return [] if self.always_exits(body) else rest

    def always_exits(self, body):
        if not body:
            return False
        s = body[-1]
        if isinstance(s, (ast.Return, ast.Raise)):
            return True
        if isinstance(s, ast.If):
            return self.always_exits(s.body) and self.always_exits(s.orelse)
        return False

    def for_exit(self, s, rest, env):
        """for <targets> in <iter>: if COND: return CONST   (then rest)"""
        if s.orelse or len(s.body) != 1 or not isinstance(s.body[0], ast.If) or s.body[0].orelse:
            raise TranslationError("for-loop shape")
        inner = s.body[0]
        if len(inner.body) != 1 or not isinstance(inner.body[0], ast.Return):
            raise TranslationError("for-loop body shape")
        exit_val = self.ret_wrap(self.expr(inner.body[0].value, env))
        it = s.iter
        env2 = dict(env)
        # zip(a, b)
        if (isinstance(it, ast.Call) and isinstance(it.func, ast.Name) and it.func.id == "zip"
                and len(it.args) == 2 and isinstance(s.target, ast.Tuple) and len(s.target.elts) == 2):
            a, b = self.expr(it.args[0], env), self.expr(it.args[1], env)
            xa, xb = (cname(t.id) for t in s.target.elts)
            env2[s.target.elts[0].id] = T(xa, "val")
            env2[s.target.elts[1].id] = T(xb, "val")
            cond = self.as_bool(self.expr(inner.test, env2))
            sa = a.payload if getattr(a, "payload_kind", None) == "seq" else "(py_seq %s)" % self.as_val(a).txt
            sb = b.payload if getattr(b, "payload_kind", None) == "seq" else "(py_seq %s)" % self.as_val(b).txt
            loop = ("((fix go (xs ys : list pyval) {struct xs} : bool := match xs, ys with "
                    "| %s :: xs', %s :: ys' => if %s then true else go xs' ys' | _, _ => false end) %s %s)"
                    % (xa, xb, cond.txt, sa, sb))
            return "(if %s then %s else %s)" % (loop, exit_val, self.block(rest, env))
        # x.items()
        if (isinstance(it, ast.Call) and isinstance(it.func, ast.Attribute) and it.func.attr == "items"
                and not it.args and isinstance(s.target, ast.Tuple) and len(s.target.elts) == 2):
            d = self.expr(it.func.value, env)
            xk, xv = (cname(t.id) for t in s.target.elts)
            env2[s.target.elts[0].id] = T(xk, "val")
            env2[s.target.elts[1].id] = T(xv, "val")
            cond = self.as_bool(self.expr(inner.test, env2))
            sd = d.payload if getattr(d, "payload_kind", None) == "items" else "(py_items %s)" % self.as_val(d).txt
            loop = ("((fix go (kvs : list (pyval * pyval)) : bool := match kvs with "
                    "| (%s, %s) :: rest => if %s then true else go rest | [] => false end) %s)"
                    % (xk, xv, cond.txt, sd))
            return "(if %s then %s else %s)" % (loop, exit_val, self.block(rest, env))
        raise TranslationError("for-loop iterator shape")

    def acc_list(self, acc, rest, env):
        """result = []; for key in sorted(d.keys()): result.append(key); result.append(F(d[key])); return tuple(result)"""
        if len(rest) != 2 or not isinstance(rest[0], ast.For) or not isinstance(rest[1], ast.Return):
            raise TranslationError("list accumulator shape")
        loop, ret = rest
        it = loop.iter
        ok = (isinstance(it, ast.Call) and isinstance(it.func, ast.Name) and it.func.id == "sorted"
              and len(it.args) == 1 and not it.keywords
              and isinstance(it.args[0], ast.Call) and isinstance(it.args[0].func, ast.Attribute)
              and it.args[0].func.attr == "keys" and isinstance(loop.target, ast.Name) and not loop.orelse)
        if not ok or len(loop.body) != 2:
            raise TranslationError("list accumulator loop shape")
        dexpr = it.args[0].func.value
        d = self.expr(dexpr, env)
        key = loop.target.id
        def is_append(st):
            return (isinstance(st, ast.Expr) and isinstance(st.value, ast.Call)
                    and isinstance(st.value.func, ast.Attribute) and st.value.func.attr == "append"
                    and isinstance(st.value.func.value, ast.Name) and st.value.func.value.id == acc
                    and len(st.value.args) == 1)
        if not (is_append(loop.body[0]) and is_append(loop.body[1])):
            raise TranslationError("list accumulator appends")
        a0, a1 = loop.body[0].value.args[0], loop.body[1].value.args[0]
        if not (isinstance(a0, ast.Name) and a0.id == key):
            raise TranslationError("first append must be the key")
        # second append: F(d[key]) with the same d
        if not (isinstance(a1, ast.Call) and len(a1.args) == 1 and isinstance(a1.args[0], ast.Subscript)
                and ast.dump(a1.args[0].value) == ast.dump(dexpr)
                and isinstance(a1.args[0].slice, ast.Name) and a1.args[0].slice.id == key):
            raise TranslationError("second append must be F(d[key])")
        env2 = dict(env)
        env2["__v"] = T("v_", "val")
        call = ast.Call(func=a1.func, args=[ast.Name(id="__v", ctx=ast.Load())], keywords=[])
        fv = self.as_val(self.expr(call, env2))
        if not (isinstance(ret.value, ast.Call) and isinstance(ret.value.func, ast.Name)
                and ret.value.func.id == "tuple" and len(ret.value.args) == 1
                and isinstance(ret.value.args[0], ast.Name) and ret.value.args[0].id == acc):
            raise TranslationError("list accumulator return")
        sd = d.payload if getattr(d, "payload_kind", None) == "items" else "(py_items %s)" % self.as_val(d).txt
        txt = ("(PTuple (flat_map (fun kv => [fst kv; snd kv]) (sort_items "
               "(map (fun kv => match kv with (k_, v_) => (k_, %s) end) %s))))" % (fv.txt, sd))
        return self.ret_wrap(T(txt, "val"))

    def acc_dict(self, acc, rest, env):
        """result = {}; for key, subvalue in d.items(): result[K(key)] = F(subvalue); return result"""
        if len(rest) != 2 or not isinstance(rest[0], ast.For) or not isinstance(rest[1], ast.Return):
            raise TranslationError("dict accumulator shape")
        loop, ret = rest
        it = loop.iter
        ok = (isinstance(it, ast.Call) and isinstance(it.func, ast.Attribute) and it.func.attr == "items"
              and not it.args and isinstance(loop.target, ast.Tuple) and len(loop.target.elts) == 2
              and len(loop.body) == 1 and not loop.orelse)
        if not ok:
            raise TranslationError("dict accumulator loop shape")
        st = loop.body[0]
        if not (isinstance(st, ast.Assign) and len(st.targets) == 1 and isinstance(st.targets[0], ast.Subscript)
                and isinstance(st.targets[0].value, ast.Name) and st.targets[0].value.id == acc):
            raise TranslationError("dict accumulator store")
        if not (isinstance(ret.value, ast.Name) and ret.value.id == acc):
            raise TranslationError("dict accumulator return")
        d = self.expr(it.func.value, env)
        xk, xv = (cname(t.id) for t in loop.target.elts)
        env2 = dict(env)
        env2[loop.target.elts[0].id] = T(xk, "val")
        env2[loop.target.elts[1].id] = T(xv, "val")
        kexp = self.expr(st.targets[0].slice, env2)
        vexp = self.expr(st.value, env2)
        def bind(t, var, body):
            if t.kind == "oval":
                return "obind %s (fun %s => %s)" % (t.txt, var, body)
            return "(let %s := %s in %s)" % (var, self.as_val(t).txt, body)
        sd = d.payload if getattr(d, "payload_kind", None) == "items" else "(py_items %s)" % self.as_val(d).txt
        inner = bind(vexp, "v'", bind(kexp, "k'", "go rest (assoc_set k' v' acc)"))
        txt = ("((fix go (kvs acc : list (pyval * pyval)) {struct kvs} : option pyval := match kvs with "
               "| [] => Some (PDict acc) | (%s, %s) :: rest => %s end) %s [])" % (xk, xv, inner, sd))
        if self.ret != "oval":
            raise TranslationError("dict accumulator in non-option function")
        return txt

    # ---- whole function ----
    def translate(self):
        self.ret = self.infer_ret()
        branches = []
        for ctor, pat, cls, pk in CTORS:
            env = {}
            for p in self.params[1:]:
                env[p] = T(cname(p), "val")
            pt = T("(%s)" % pat if " " in pat else pat, "val")
            pt.static_cls = cls
            if pk:
                pt.payload = pat.split()[1]
                pt.payload_kind = pk
            env[self.principal] = pt
            branches.append("  | %s => %s" % (pat, self.block(list(self.fn.body), env)))
        rett = {"bool": "bool", "val": "pyval", "oval": "option pyval"}[self.ret]
        params = " ".join("(%s : pyval)" % cname(p) for p in self.params)
        kw = "Fixpoint" if self.self_calls else "Definition"
        struct = " {struct %s}" % cname(self.principal) if self.self_calls else ""
        return "%s %s %s%s : %s :=\n  match %s with\n%s\n  end.\n" % (
            kw, self.name, params, struct, rett, cname(self.principal), "\n".join(branches))


HEADER = """(* GENERATED by tools/translate/json_util_tr.py from file_builder/json_util.py.
   Do not edit: regenerated from /repo on every check run. *)
From Coq Require Import List String ZArith Bool Arith.
From FB.Base Require Import PyVal.
Import ListNotations.
Open Scope string_scope.

(* str(x), int(x), float(x), repr(x) as used by json_util on exact built-ins *)
Definition py_str (v : pyval) : pyval := v.
Definition py_int (v : pyval) : pyval := match v with PBool b => PInt (bool_z b) | _ => v end.
Definition py_float (v : pyval) : pyval := v.
Definition py_repr (v : pyval) : pyval :=
  match v with
  | PInt z => PStr (int_repr z)
  | PBool b => PStr (if b then "True" else "False")
  | PFloat f => PStr (float_repr f)
  | _ => PStr "<repr>"
  end.

"""

ORDER = ["_key_to_str", "is_equal", "to_hashable", "sanitize"]

def translate_source(src):
    tree = ast.parse(src)
    classes = [n for n in tree.body if isinstance(n, ast.ClassDef) and n.name == "JsonUtil"]
    others = [n for n in tree.body if not (isinstance(n, ast.ClassDef) and n.name == "JsonUtil")
              and not (isinstance(n, ast.Expr) and isinstance(n.value, ast.Constant))]
    if len(classes) != 1 or others:
        raise TranslationError("json_util.py must contain exactly the class JsonUtil")
    methods = {}
    for n in classes[0].body:
        if isinstance(n, ast.Expr) and isinstance(n.value, ast.Constant):
            continue
        if not isinstance(n, ast.FunctionDef):
            raise TranslationError("unexpected class member")
        decos = [d.id for d in n.decorator_list if isinstance(d, ast.Name)]
        if decos != ["staticmethod"]:
            raise TranslationError("method %s is not a plain staticmethod" % n.name)
        methods[n.name] = n
    if sorted(methods) != sorted(ORDER):
        raise TranslationError("methods of JsonUtil changed: %s" % sorted(methods))
    out = [HEADER]
    rets = {}
    for name in ORDER:
        ft = FuncTr(methods[name], rets)
        txt = ft.translate()
        # a function calling itself needs its own return kind known up front
        rets[ft.name] = {"bool": "bool", "val": "val", "oval": "oval"}[ft.ret]
        out.append(txt)
    return "\n".join(out)

def main():
    src_path, out_path = sys.argv[1], sys.argv[2]
    try:
        txt = translate_source(open(src_path).read())
    except (TranslationError, SyntaxError) as e:
        print("TRANSLATION-ERROR json_util: %s" % e)
        sys.exit(2)
    try:
        old = open(out_path).read()
    except FileNotFoundError:
        old = None
    if old != txt:
        with open(out_path, "w") as f:
            f.write(txt)
        print("json_util: regenerated", out_path)
    else:
        print("json_util: unchanged")

if __name__ == "__main__":
    main()
