#!/usr/bin/env python3
"""T1b / T1c / T1f: control skeleton of the package -> Gen/Decisions.v, Gen/Sites.v, Gen/Order.v.

Decisions.v : for every function of the six package modules, in lexical order: the tests of
              if / elif / while / conditional `return`, as boolean expression trees with Python's
              short-circuit structure (atoms are the unparsed sub-expressions), the exception classes
              of every `except`, the class of every `raise`, and `finally` markers.
Sites.v     : every call of a mutating primitive (os.mkdir, os.makedirs, os.rmdir, os.remove, os.rename,
              os.replace, shutil.rmtree, gzip.open for writing, open for writing, tempfile.mkdtemp, ...)
              with the enclosing function, its ordinal there and the guards (enclosing tests) it sits under.
Order.v     : the top-level statement sequence of build_versioned and clean as abstract actions
              (validation / read-only / effect), for "no effect before the last validation".
Fail-closed on unknown mutating-looking calls (any attribute of os/shutil/tempfile not in the known
read-only or mutating sets)."""
import ast
import os
import sys

MODULES = ["build_dirs.py", "cache.py", "created_files.py", "file_backups.py", "file_builder.py",
           "simple_operation_executor.py"]
OS_MUT = {"mkdir", "makedirs", "rmdir", "remove", "rename", "replace", "unlink", "removedirs", "utime", "chmod", "renames", "symlink", "link", "truncate"}
OS_RO = {"listdir", "stat", "fsdecode", "getcwd", "name", "walk", "scandir", "lstat", "sep", "fspath"}
PATH_RO = {"isfile", "isdir", "exists", "lexists", "islink", "getsize", "join", "dirname", "basename", "normcase", "abspath", "split", "normpath", "isabs"}
SHUTIL_MUT = {"rmtree", "move", "copy", "copy2", "copyfile", "copytree"}
TEMPFILE_MUT = {"mkdtemp", "mkstemp"}


class TranslationError(Exception):
    pass


def q(s):
    return '"' + s.replace('"', '""') + '"'


def dexpr(e):
    if isinstance(e, ast.BoolOp):
        k = "DOr" if isinstance(e.op, ast.Or) else "DAnd"
        return "%s [%s]" % (k, "; ".join(dexpr(v) for v in e.values))
    if isinstance(e, ast.UnaryOp) and isinstance(e.op, ast.Not):
        return "DNot (%s)" % dexpr(e.operand)
    return "DAtom %s" % q(ast.unparse(e))


def exc_names(t):
    if t is None:
        return ["<bare>"]
    if isinstance(t, ast.Tuple):
        return [ast.unparse(x) for x in t.elts]
    return [ast.unparse(t)]


def mut_call(c):
    """-> name of the mutating primitive, or None; raises on unknown os/shutil/tempfile attributes"""
    f = c.func
    if isinstance(f, ast.Attribute) and isinstance(f.value, ast.Name):
        m, a = f.value.id, f.attr
        if m == "os":
            if a in OS_MUT:
                return "os." + a
            if a in OS_RO:
                return None
            raise TranslationError("unknown os attribute called: os." + a)
        if m == "shutil":
            if a in SHUTIL_MUT:
                return "shutil." + a
            raise TranslationError("unknown shutil attribute called: shutil." + a)
        if m == "tempfile":
            if a in TEMPFILE_MUT:
                return "tempfile." + a
            raise TranslationError("unknown tempfile attribute called: tempfile." + a)
        if m == "gzip" and a == "open":
            mode = c.args[1].value if len(c.args) > 1 and isinstance(c.args[1], ast.Constant) else "rb"
            return "gzip.open(w)" if any(ch in mode for ch in "wax+") else None
    if isinstance(f, ast.Attribute) and isinstance(f.value, ast.Attribute) and isinstance(f.value.value, ast.Name):
        if f.value.value.id == "os" and f.value.attr == "path":
            if f.attr in PATH_RO:
                return None
            raise TranslationError("unknown os.path attribute called: " + f.attr)
    if isinstance(f, ast.Name) and f.id == "open":
        mode = c.args[1].value if len(c.args) > 1 and isinstance(c.args[1], ast.Constant) else "r"
        return "open(w)" if any(ch in mode for ch in "wax+") else None
    return None


def skeleton(fn):
    items, sites = [], []
    counter = {}

    def visit_expr_calls(node, guards):
        for c in ast.walk(node):
            if isinstance(c, ast.Call):
                m = mut_call(c)
                if m:
                    counter[m] = counter.get(m, 0) + 1
                    sites.append((m, counter[m], list(guards)))

    def walk(stmts, guards):
        for s in stmts:
            if isinstance(s, (ast.FunctionDef, ast.ClassDef)):
                continue
            if isinstance(s, ast.If):
                items.append("DTest \"if\" (%s)" % dexpr(s.test))
                visit_expr_calls(s.test, guards)
                g = ast.unparse(s.test)
                walk(s.body, guards + [g])
                walk(s.orelse, guards + ["not (" + g + ")"])
            elif isinstance(s, ast.While):
                items.append("DTest \"while\" (%s)" % dexpr(s.test))
                visit_expr_calls(s.test, guards)
                walk(s.body, guards + [ast.unparse(s.test)])
                walk(s.orelse, guards)
            elif isinstance(s, ast.For):
                items.append("DFor %s" % q(ast.unparse(s.iter)))
                visit_expr_calls(s.iter, guards)
                walk(s.body, guards + ["for"])
                walk(s.orelse, guards)
            elif isinstance(s, ast.Try):
                items.append("DTry")
                walk(s.body, guards + ["try"])
                for h in s.handlers:
                    items.append("DExcept [%s]" % "; ".join(q(n) for n in exc_names(h.type)))
                    walk(h.body, guards + ["except " + ",".join(exc_names(h.type))])
                walk(s.orelse, guards)
                if s.finalbody:
                    items.append("DFinally")
                    walk(s.finalbody, guards + ["finally"])
            elif isinstance(s, ast.With):
                for it in s.items:
                    visit_expr_calls(it.context_expr, guards)
                walk(s.body, guards)
            elif isinstance(s, ast.Raise):
                exc = s.exc
                name = "<reraise>" if exc is None else (ast.unparse(exc.func) if isinstance(exc, ast.Call) else ast.unparse(exc))
                items.append("DRaise %s" % q(name))
            elif isinstance(s, ast.Return):
                if s.value is not None and isinstance(s.value, (ast.BoolOp, ast.Compare)) or (
                        s.value is not None and isinstance(s.value, ast.UnaryOp) and isinstance(s.value.op, ast.Not)):
                    items.append("DTest \"return\" (%s)" % dexpr(s.value))
                if s.value is not None:
                    visit_expr_calls(s.value, guards)
            else:
                visit_expr_calls(s, guards)
    walk(fn.body, [])
    return items, sites


def body_fingerprint(fn):
    """hash of the function's statements (docstring, comments and positions excluded): any edit of the
    routine changes it"""
    import hashlib
    body = list(fn.body)
    if body and isinstance(body[0], ast.Expr) and isinstance(body[0].value, ast.Constant) and isinstance(body[0].value.value, str):
        body = body[1:]
    txt = "\n".join(ast.dump(b, annotate_fields=False, include_attributes=False) for b in body)
    return hashlib.sha256(txt.encode()).hexdigest()[:16]


def order_actions(fn):
    """top-level statements of build_versioned / clean as abstract actions"""
    out = []
    EFFECT_CALLS = {"_build", "_try_to_remove_file", "_remove_empty_dirs", "FileBackups", "_commit", "_roll_back", "write"}
    RO_CALLS = {"read_immutable", "create_empty_immutable", "create_empty_mutable", "BuildDirs", "SimpleOperationExecutor",
                "FileBuilder", "_sanitize_filename", "_sanitize_versions", "isfile", "isdir", "exists", "build_name",
                "created_dirs", "created_files", "isinstance", "callable", "format", "info", "TypeError", "RuntimeError",
                "IsADirectoryError"}

    def classify(s):
        names = set()
        for c in ast.walk(s):
            if isinstance(c, ast.Call):
                f = c.func
                names.add(f.attr if isinstance(f, ast.Attribute) else (f.id if isinstance(f, ast.Name) else "?"))
                if mut_call(c):
                    names.add("<mut>")
        if names & (EFFECT_CALLS | {"<mut>"}):
            return "AEffect"
        unknown = names - RO_CALLS - EFFECT_CALLS
        if unknown:
            raise TranslationError("unclassified call in %s: %s" % (fn.name, sorted(unknown)))
        if any(isinstance(x, ast.Raise) for x in ast.walk(s)):
            return "AValidate"
        return "AReadOnly"
    for s in fn.body:
        if isinstance(s, ast.Expr) and isinstance(s.value, ast.Constant):
            continue
        if isinstance(s, ast.For):
            out.append(("AEffect" if classify(s) == "AEffect" else "AReadOnly", "for " + ast.unparse(s.iter)))
        elif isinstance(s, ast.If):
            # a validation `if` may contain read-only calls; an `if` with effects is an effect
            out.append((classify(s), "if " + ast.unparse(s.test)))
        elif isinstance(s, ast.With):
            out.append(("AEffect", "with " + ", ".join(ast.unparse(i.context_expr) for i in s.items)))
        else:
            out.append((classify(s), ast.unparse(s).split("\n")[0][:60]))
    return out


def write_if_changed(path, txt, tag):
    try:
        old = open(path).read()
    except FileNotFoundError:
        old = None
    if old != txt:
        open(path, "w").write(txt)
        print("%s: regenerated %s" % (tag, path))
    else:
        print("%s: unchanged" % tag)


def main():
    src, out = sys.argv[1], sys.argv[2]
    outdir = os.path.dirname(out)
    try:
        funcs = []
        for m in MODULES:
            tree = ast.parse(open(os.path.join(src, m)).read())
            for node in tree.body:
                if isinstance(node, ast.ClassDef):
                    for fn in node.body:
                        if isinstance(fn, ast.FunctionDef):
                            items, sites = skeleton(fn)
                            items = ["DBody %s" % q(body_fingerprint(fn))] + items
                            funcs.append(("%s.%s" % (node.name, fn.name), items, sites, fn))
        order = {}
        for name, _, _, fn in funcs:
            if name in ("FileBuilder.build_versioned", "FileBuilder.clean"):
                order[name] = order_actions(fn)
        if len(order) != 2:
            raise TranslationError("build_versioned / clean not found")
    except (TranslationError, SyntaxError, OSError) as e:
        print("TRANSLATION-ERROR skeleton: %s" % e)
        sys.exit(2)
    head = ("(* GENERATED by tools/translate/skeleton_tr.py from file_builder/*.py. Do not edit. *)\n"
            "From Coq Require Import List String.\nImport ListNotations.\nOpen Scope string_scope.\n\n")
    dec = head + ("Inductive dexpr := DAtom (a : string) | DNot (d : dexpr) | DAnd (l : list dexpr) | DOr (l : list dexpr).\n"
                  "Inductive ditem := DTest (kind : string) (d : dexpr) | DFor (it : string) | DTry | DExcept (classes : list string)\n"
                  "                 | DFinally | DRaise (cls : string) | DBody (fingerprint : string).\n\n"
                  "Definition decisions : list (string * list ditem) := [\n")
    dec += ";\n".join("  (%s, [%s])" % (q(n), ";\n     ".join(items)) for n, items, _, _ in funcs)
    dec += "\n].\n"
    write_if_changed(out, dec, "decisions")
    sit = head + "(* function, primitive, ordinal within the function, enclosing guards *)\nDefinition sites : list (string * string * nat * list string) := [\n"
    rows = []
    for n, _, sites, _ in funcs:
        for prim, k, guards in sites:
            rows.append("  (%s, %s, %d, [%s])" % (q(n), q(prim), k, "; ".join(q(g) for g in guards)))
    sit += ";\n".join(rows) + "\n].\n"
    write_if_changed(os.path.join(outdir, "Sites.v"), sit, "sites")
    orde = head + ("Inductive action := AValidate | AReadOnly | AEffect.\n\n"
                   "Definition order : list (string * list (action * string)) := [\n")
    orde += ";\n".join("  (%s, [%s])" % (q(n), ";\n     ".join("(%s, %s)" % (a, q(t)) for a, t in acts)) for n, acts in sorted(order.items()))
    orde += "\n].\n\n(* callee names of selected functions in lexical (= evaluation, for straight-line code) order *)\n"
    sel = ["FileBuilder._build_file", "FileBuilder._handle_error_building_file", "FileBuilder._build", "FileBuilder._roll_back",
           "FileBuilder._try_to_reuse_cached_file", "FileBuilder._subbuild", "FileBuilder._rebuild_file"]
    rows = []
    for n, _, _, fn in funcs:
        if n in sel:
            cs = []
            for c in sorted((c for c in ast.walk(fn) if isinstance(c, ast.Call)), key=lambda c: (c.lineno, c.col_offset)):
                f = c.func
                cs.append(f.attr if isinstance(f, ast.Attribute) else (f.id if isinstance(f, ast.Name) else "?"))
            rows.append("  (%s, [%s])" % (q(n), "; ".join(q(x) for x in cs)))
    orde += "Definition call_order : list (string * list string) := [\n" + ";\n".join(rows) + "\n]."
    orde += "\n"
    write_if_changed(os.path.join(outdir, "Order.v"), orde, "order")


if __name__ == "__main__":
    main()
