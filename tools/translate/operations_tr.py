#!/usr/bin/env python3
"""Translate the operations part of file_builder.py (class FileBuilder) into Gallina (Gen/OpsGen.v).

    python operations_tr.py <repo_dir> <output.v>

One definition `gen_fb_<method>` (`gen_fb_priv_<method>` for `_method`) per method of the table SCOPE; the other
members of the class are not generated (a call to one of them must be in the table OWN_MODEL / OWN_PURE, which maps it
to the hand-written routine of Model/Builder.v).  Fail-closed: any statement or expression outside the shapes below
ends the run with "TRANSLATION-ERROR operations: <file>:<line>: ..." and exit status 1; nothing is written.
Deterministic: no sets or hashes are iterated.

Two monads.  A method that does not touch the builder's own fields is in `M` (Model/Monad.v, state = world).  A method
that reads or writes `self._operation` / `self._is_finished_build`, calls the user function, creates a sub-builder, or
calls such a method, is in `BM A = bstate -> world -> (bstate * world) * (A + exn)` (header of the output):
`bstate = {b_op : option opr; b_finished_build : bool}` are the two fields a FileBuilder does not share; the other
fields are the world (table ATTRS).  The state survives an exception (a record mutated before a `raise` stays mutated).
`opr` / `sopr` are the mutable BuildFile/Subbuild / Simple operation objects (one field per attribute of operation.py,
which is parsed: hierarchy, constructor parameters, defaults); `freeze` / `freeze_s` give the immutable `op` of
Model/Types.v (dropping `is_finished`) wherever the object is stored in a cache or appended to `suboperations`
(tables MONADIC_CALLS / coercions of `want`).

Statements, in continuation-passing style (the code after an `if` / `try` is translated once per path; `return` /
`raise` end a path):
  docstrings; `logger.<level>(<message>)` dropped; `with self._lock:` / `with self._build_dirs.creation_lock():` (locks dropped);
  x = <pure> / x = <call> / a, b = <call returning a pair> / x = None (typed by the table NONE_LOCALS)
  operation = self._operation          alias: reads are projections of a snapshot `o<i>_ <~ self_op[_bf]` taken
                                       before the statement, writes are `self_update (fun o_ => set_r_<a> o_ v)`
  <local record>.a = v                 let <local> := set_r_<a> <local> v in
  x = BuildFileOperation(...) / SubbuildOperation(...) / SimpleOperation('<name>', [args])
  subbuilder = FileBuilder(<local record>, self._old_cache, ...)   alias; `subbuilder.m(args)` only as the body of a try:
                                       r <~ run_sub <record> (gen_fb_m args) ;; let <record> := fst r in match snd r with ...
  self._operation.suboperations.append(x)
  created_files.started_building_file(p) / finished_building_file(p) / error_building_file(p)   the parameter
                                       `created_files` is threaded: a method that changes it returns (result, created_files)
  if <test>: a test is static (isinstance / callable on a typed name, `name not in OPERATIONS`), a match
                                       (`x is [not] None [and REST]`, isinstance / attribute of an `op` of unknown class: the
                                       statement and its continuation are split into the three constructors), a pure boolean,
                                       or a boolean with calls in it (short-circuit kept: `c <- <mbool> ;; if c then .. else ..`);
                                       an `if` whose branches only log is evaluated for its effects
  for x in <record>.suboperations:     a Definition with an inner `fix loop` over the list, the code after the loop in its
                                       `[]` branch; a call of a mutually recursive method goes through a function parameter
  try: BODY except C [as e]: H ... [finally: F]
                                       r <- attempt BODY' ;; match r with inl c => F; rest | inr e => if <test C> then H' else F; raise e
                                       (BODY' returns the locals BODY assigns; `return` inside BODY: inl/inr; F is translated
                                       once per path; a bare `raise` in H is F; raise e)
  raise RuntimeError(<literal>) / TypeError(<literal>) / raise      table RUNTIME / XType / raise e
  e.__class__.__name__ only of an exception caught as OSError (the model names the classes of OSError only)
Recursion: in a group of mutually recursive methods the ones whose recursive calls all sit in a loop over
`<record parameter>.suboperations` are generated open (`_open`, abstracted over the others), the others become one
mutual Fixpoint structural on their record parameter, then the open ones are closed.
"""
import ast
import os
import re
import sys

sys.dont_write_bytecode = True
sys.path.insert(0, os.path.dirname(os.path.abspath(__file__)))
from bookkeeping_tr import TranslationError, ind, self_attr, os_call, method_call  # noqa: E402
import executor_tr  # noqa: E402
import cache_tr  # noqa: E402
from executor_tr import QUERIES, is_none  # noqa: E402
from cache_tr import occurs, coq_string  # noqa: E402

CLASS, FILE, PREFIX = "FileBuilder", "file_builder.py", "gen_fb_"
SCOPE = ["build_file", "build_file_with_comparison", "_build_file", "_rebuild_file", "_handle_error_building_file",
         "_try_to_reuse_cached_file", "_assert_build_file_call_valid", "subbuild", "_subbuild",
         "_exec_simple_operation", "_append_suboperation", "_assert_not_finished",
         "read_text", "read_binary", "declare_read", "list_dir", "walk", "is_file", "is_dir", "exists", "get_size",
         "_build_file_cache_lookup", "_subbuild_cache_lookup", "_is_build_file_cached",
         "_is_build_file_operation_cached", "_is_subbuild_operation_cached", "_is_simple_operation_cached",
         "_are_suboperations_cached", "_noneable_file_comparison_result", "_apply_cached_suboperations",
         "_sanitize_args", "_call_and_sanitize_return_value"]

# ---- kinds of values and their Coq types ("msg": an exception / log message, not modelled, dropped) ----
KTYPE = {"path": "path", "str": "string", "json": "pyval", "bool": "bool", "cmp": "cmpmode", "ops": "list op",
         "op": "op", "oop": "option op", "opr": "opr", "sopr": "sopr", "cfiles": "cfiles", "paths": "list path",
         "unit": "unit", "func": "ufunc", "uargs": "(option path * pyval)", "jsonpair": "(pyval * pyval)",
         "errname": "option errclass", "query": "query"}
# ---- parameters, typed by name (per-method overrides first) ----
PARAMS_OF = {("_exec_simple_operation", "operation"): "sopr", ("_call_and_sanitize_return_value", "args"): "uargs"}
PARAMS = {"filename": "path", "dir_": "path", "file_comparison": "cmp", "func_name": "str", "func": "func",
          "args": "json", "kwargs": "json", "top_down": "bool", "operation": "op", "suboperation": "op",
          "created_files": "cfiles", "subbuild_key": "json", "description": "msg"}
DEFAULTS = {"FileComparison.METADATA", "True"}           # default values accepted (the generated routine has no defaults)
NONE_LOCALS = {"return_value": ("json", "PNone"), "exception_type_str": ("errname", "(@None errclass)")}
# ---- attributes of self: shared objects = fields of the world; own fields = bstate ----
ATTRS = {"_old_cache": ("cache", "(w_old {w})"), "_new_cache": ("cache", "(w_new {w})"), "_build_dirs": ("bdirs", None),
         "_backups": ("backups", None), "_simple_operation_executor": ("executor", None)}
OWN = {"_operation", "_is_finished_build"}
LOCK_CTX = {"self._lock", "self._build_dirs.creation_lock()"}
INIT_PARAMS = ["operation", "old_cache", "new_cache", "simple_operation_executor", "backups", "build_dirs"]
# ---- operation.py: attribute -> (kind, classes that have it); record field = r_<attr> / s_<attr> ----
OPR_ATTRS = [("filename", "path", ("BuildFile",), "[]"), ("file_comparison", "cmp", ("BuildFile",), "METADATA"),
             ("func_name", "str", ("BuildFile", "Subbuild"), None), ("args", "json", ("BuildFile", "Subbuild"), None),
             ("kwargs", "json", ("BuildFile", "Subbuild"), None), ("suboperations", "ops", ("BuildFile", "Subbuild"), None),
             ("return_value", "json", ("BuildFile", "Subbuild"), None),
             ("file_comparison_result", "json", ("BuildFile",), "PNone"), ("raised", "bool", ("BuildFile", "Subbuild"), None),
             ("setup_failed", "bool", ("BuildFile", "Subbuild"), None), ("is_finished", "bool", ("BuildFile", "Subbuild"), None)]
SOPR_ATTRS = [("return_value", "json"), ("exception_type_str", "errname"), ("is_finished", "bool")]
CLASSES = {"BuildFile": "BuildFileOperation", "Subbuild": "SubbuildOperation", "Simple": "SimpleOperation"}
# constructors of `op` (Model/Types.v): pattern variables, in order: (attribute, kind)
OP_PAT = {"Simple": ("OSimple", [("q", "query"), ("return_value", "json"), ("exception_type_str", "errname")]),
          "BuildFile": ("OBuildFile", [("filename", "path"), ("file_comparison", "cmp"), ("func_name", "str"),
                                       ("args", "json"), ("kwargs", "json"), ("suboperations", "ops"),
                                       ("return_value", "json"), ("file_comparison_result", "json"), ("raised", "bool"),
                                       ("setup_failed", "bool")]),
          "Subbuild": ("OSubbuild", [("func_name", "str"), ("args", "json"), ("kwargs", "json"), ("suboperations", "ops"),
                                     ("return_value", "json"), ("raised", "bool"), ("setup_failed", "bool")])}
OP_UNMODELLED = {"is_finished"}
# ---- calls: (attribute of self, method) -> (term, argument kinds, result kind) ----
PURE_CALLS = {
    ("cache", "has_norm_cased_file"): ("(cache_has_file {recv} {0})", ["path"], "bool"),
    ("cache", "get_file"): ("(cache_get_file {recv} {0})", ["path"], "oop"),
    ("cache", "get_subbuild"): ("(cache_get_subbuild {recv} {0})", ["json"], "oop"),
    ("cache", "has_subbuild"): ("(cache_has_subbuild {recv} {0})", ["json"], "bool"),
    ("cache", "get_func_version"): ("(func_version {recv} {0})", ["str"], "json"),
    ("cache", "get_operation_version"): ("PNone", ["qname"], "json"),
    ("cache", "created_file"): ("(cache_created_file {recv} {0})", ["path"], "bool"),
    ("executor", "is_cache_file"): ("(path_eqb {0} (w_cachefile {w}))", ["path"], "bool"),
}
MONADIC_CALLS = {
    ("_new_cache", "assert_doesnt_have_norm_cased_file"): ("(new_assert_no_file {0})", ["path", "path"], "unit"),
    ("_new_cache", "start_building_file"): ("(new_start_building_file {0})", ["path"], "unit"),
    ("_new_cache", "abort_building_file"): ("(new_abort_building_file {0})", ["path"], "unit"),
    ("_new_cache", "finish_building_file"): ("(new_finish_building_file (r_filename {0}) (freeze {0}))", ["opr"], "unit"),
    ("_new_cache", "use_cached_operation"): ("(new_use_cached_operation (freeze {0}))", ["opr"], "unit"),
    ("_new_cache", "assert_doesnt_have_subbuild"): ("(new_assert_no_subbuild {0})", ["json", "opr"], "unit"),
    ("_new_cache", "start_subbuild"): ("(new_start_subbuild {0})", ["json", "opr"], "unit"),
    ("_new_cache", "finish_subbuild"): ("(new_finish_subbuild {0} (freeze {1}))", ["json", "opr"], "unit"),
    ("_build_dirs", "started_building_file"): ("(m_bd_started {0} {1})", ["path", "paths"], "paths"),
    ("_build_dirs", "error_building_file"): ("(m_bd_error {0})", ["path"], "unit"),
    ("_simple_operation_executor", "file_comparison_result"): ("(file_comparison_result {0} {1})", ["path", "cmp"], "json"),
    ("_backups", "back_up_and_remove"): ("(back_up_and_remove {0})", ["path"], "bool"),
}
# FileBuilder methods outside SCOPE -> routines of Model/Builder.v ({self}: the snapshot of self._operation)
OWN_MODEL = {"_dirs_to_make": ("(dirs_to_make {0} {1})", ["path", "ocf"], "paths"),
             "_make_dirs": ("(make_dirs {0})", ["path"], "paths"),
             "_prepare_file_creation": ("(prepare_file_creation (r_filename {self}))", [], "paths"),
             "_ensure_dirs_case": ("(ret tt)", ["paths"], "unit"),
             "_try_to_remove_file": ("(try_to_remove_file {0})", ["path"], "unit")}
OWN_PURE = {"_sanitize_filename": ("{0}", ["path"], "path"), "_has_case": ("true", ["path"], "bool")}
PRIM_MONADIC = {"JsonUtil.sanitize": ("(sanitize_m {0})", ["json"], "json")}
PRIM_PURE = {"JsonUtil.is_equal": ("(is_equal {0} {1})", ["json", "json"], "bool"),
             "os.path.dirname": ("(dirname {0})", ["path"], "path"),
             "os.path.isfile": ("(isfile (w_fs {w}) {0})", ["path"], "bool"),
             "os.path.lexists": ("(lexists (w_fs {w}) {0})", ["path"], "bool")}
CF_MUTATORS = {"started_building_file": "(cf_started {cf} {0})", "finished_building_file": "(cf_finished {cf} {0})"}
CF_MONADIC = {"error_building_file": "(m_cf_error {cf} {0})"}
# ---- exceptions ----
RUNTIME = [("This FileBuilder instance has already finished executing", "XRuntime RFinished"),
           ("Unhandled operation type", 'XCrash "Unhandled operation type"'),
           ("build_file* may not write to the cache file", "XRuntime RCacheFileTarget"),
           ("The build_file* call for {:s} didn't create that file", "XRuntime RNotCreated")]
EXC_TEST = {"Exception": None, "OSError": "is_os {e}", "TypeError": "is_type {e}",
            "FileNotFoundError": "is_os_class XFileNotFound {e}", "NotADirectoryError": "is_os_class XNotADirectory {e}",
            "IsADirectoryError": "is_os_class XIsADirectory {e}", "FileExistsError": "is_os_class XFileExists {e}"}
STATIC_ISINSTANCE = {("str", "str"), ("cmp", "FileComparison"), ("bool", "bool")}

RESERVED = {"name", "path", "get", "put", "ret", "raise", "bind", "catch", "modify", "attempt", "lift", "bret", "braise",
            "bbind", "battempt", "loop", "xs", "xs'", "tt", "true", "false", "Some", "None", "inl", "inr", "fst", "snd",
            "isfile", "isdir", "lexists", "dirname", "w", "q", "b", "o_", "in", "end", "at", "fun", "fix", "let", "match",
            "with", "if", "then", "else", "return", "as", "exists", "forall", "world", "op", "opr", "sopr", "query",
            "body", "freeze", "freeze_s", "self_op", "self_op_bf", "self_opt", "self_update", "run_sub", "call_user",
            "negb", "andb", "orb", "string", "bool", "unit", "list", "option", "nat", "M", "BM", "cache", "cfiles",
            "is_equal", "sanitize", "is_os", "is_type", "exn", "outcome"}


def cname(n):
    return n + "_py" if (n in RESERVED or n.startswith(PREFIX) or n.startswith("rec_")
                         or re.fullmatch(r"[a-z]+\d+_", n)) else n


def gname(name):
    return PREFIX + ("priv_" + name.lstrip("_") if name.startswith("_") else name)


class NeedSplit(Exception):
    def __init__(self, var):
        self.var = var


class PyAttributeError(Exception):
    pass


class T:
    """A translated pure expression: Coq text + kind.  .const: static boolean; .ctor / .fields: constructor of an `op`
    variable once known and its pattern variables; .cls: class of an opr local; .obj: the record of a sub-builder;
    .known: for the alias of self._operation, "some" / "none" when a test has decided it; .q: the query a
    SimpleOperation's name / args came from."""
    def __init__(self, txt, kind, **kw):
        self.txt, self.kind = txt, kind
        self.const = self.ctor = self.fields = self.cls = self.obj = self.known = None
        self.__dict__.update(kw)


class Sig:
    def __init__(self):
        self.static, self.params, self.retkind = False, [], None
        self.calls, self.bm, self.cf_out, self.cf_param = [], False, False, None
        self.has_none = self.has_value = False
        self.rec_param = None


# ---------------------------------------------------------------- operation.py
def read_constructors(path):
    """{class: [(parameter, attribute, default node or None)]}: the attribute each constructor parameter is stored in,
    following `self.a = p` and `super().__init__(...)`; the hierarchy is checked by cache_tr.read_operation_classes"""
    def fail(msg, node=None):
        raise TranslationError("%s:%d: %s" % (path, getattr(node, "lineno", 0), msg))
    attrs, bases = cache_tr.read_operation_classes(path)
    tree = ast.parse(open(path).read(), path)
    inits = {}
    for n in tree.body:
        if isinstance(n, ast.ClassDef):
            inits[n.name] = next((m for m in n.body if isinstance(m, ast.FunctionDef) and m.name == "__init__"), None)

    def resolve(cls):
        c = cls
        while c and inits.get(c) is None:
            c = bases[c]
        if c is None:
            fail("no constructor for %s" % cls)
        fn = inits[c]
        a = fn.args
        if a.vararg or a.kwarg or a.kwonlyargs or a.posonlyargs or a.args[0].arg != "self":
            fail("parameter list", fn)
        ps = [x.arg for x in a.args[1:]]
        defaults = [None] * (len(ps) - len(a.defaults)) + list(a.defaults)
        m = {}
        for st in fn.body:
            if isinstance(st, ast.Expr) and isinstance(st.value, ast.Constant):
                continue
            if isinstance(st, ast.Assign) and len(st.targets) == 1 and self_attr(st.targets[0]):
                if not isinstance(st.value, ast.Name) or st.value.id not in ps or st.value.id in m:
                    fail("constructor stores something other than a parameter", st)
                m[st.value.id] = self_attr(st.targets[0])
                continue
            call = st.value if isinstance(st, ast.Expr) else None
            if (isinstance(call, ast.Call) and ast.unparse(call.func) == "super().__init__" and not call.keywords
                    and all(isinstance(x, ast.Name) and x.id in ps for x in call.args)):
                up = resolve(bases[c])
                if len(up) != len(call.args):
                    fail("arity of super().__init__", st)
                for x, (_, attr, _) in zip(call.args, up):
                    if x.id in m:
                        fail("parameter %s stored twice" % x.id, st)
                    m[x.id] = attr
                continue
            fail("constructor statement", st)
        if sorted(m) != sorted(ps):
            fail("constructor of %s does not store every parameter" % c, fn)
        return [(p, m[p], d) for p, d in zip(ps, defaults)]
    out = {}
    for key, cls in CLASSES.items():
        out[key] = resolve(cls)
        have = {a for _, a, _ in out[key]}
        if have != attrs[cls]:
            fail("constructor of %s sets %s, its attributes are %s" % (cls, sorted(have), sorted(attrs[cls])))
    want_c = {a for a, _, cl, _ in OPR_ATTRS}
    for key in ("BuildFile", "Subbuild"):
        mine = {a for a, _, cl, _ in OPR_ATTRS if key in cl}
        if mine != attrs[CLASSES[key]]:
            fail("attributes of %s are %s, the table OPR_ATTRS has %s" % (CLASSES[key], sorted(attrs[CLASSES[key]]), sorted(mine)))
    if {a for a, _ in SOPR_ATTRS} | {"name", "args"} != attrs[CLASSES["Simple"]]:
        fail("attributes of SimpleOperation are %s" % sorted(attrs[CLASSES["Simple"]]))
    return out, bases


def records_text(ctors):
    """the records opr / sopr, their setters and the constructor functions, from the tables and operation.py"""
    out = []
    fields = [("r_kind", "okind")] + [("r_" + a, KTYPE[k]) for a, k, _, _ in OPR_ATTRS]
    out.append("Inductive okind := KBuildFile | KSubbuild.\nRecord opr := {\n%s\n}." % ";\n".join("  %s : %s" % f for f in fields))
    for f, t in fields[1:]:
        out.append("Definition set_%s (o : opr) (v : %s) : opr :=\n  {| %s |}." % (
            f, t, "; ".join("%s := %s" % (g, "v" if g == f else "%s o" % g) for g, _ in fields)))
    sfields = [("s_q", "query")] + [("s_" + a, KTYPE[k]) for a, k in SOPR_ATTRS]
    out.append("Record sopr := {\n%s\n}." % ";\n".join("  %s : %s" % f for f in sfields))
    for f, t in sfields[1:]:
        out.append("Definition set_%s (o : sopr) (v : %s) : sopr :=\n  {| %s |}." % (
            f, t, "; ".join("%s := %s" % (g, "v" if g == f else "%s o" % g) for g, _ in sfields)))
    for key in ("BuildFile", "Subbuild"):
        ps = ctors[key]
        kinds = {a: k for a, k, _, _ in OPR_ATTRS}
        vals = {"r_kind": "K" + key}
        for a, k, cl, dflt in OPR_ATTRS:
            p = [x for x, at, _ in ps if at == a]
            vals["r_" + a] = p[0] + "_" if p else dflt
        out.append("Definition new_%s %s : opr :=\n  {| %s |}." % (
            CLASSES[key], " ".join("(%s_ : %s)" % (p, KTYPE[kinds[a]]) for p, a, _ in ps),
            "; ".join("%s := %s" % (g, vals[g]) for g, _ in fields)))
    out.append("Definition new_SimpleOperation (q : query) %s : sopr :=\n  {| s_q := q; %s |}." % (
        " ".join("(%s_ : %s)" % (a, KTYPE[k]) for a, k in SOPR_ATTRS),
        "; ".join("s_%s := %s_" % (a, a) for a, _ in SOPR_ATTRS)))
    bf = " ".join("(r_%s o)" % a for a, _ in OP_PAT["BuildFile"][1])
    sb = " ".join("(r_%s o)" % a for a, _ in OP_PAT["Subbuild"][1])
    out.append("(* the immutable record of Model/Types.v (is_finished is dropped) *)\n"
               "Definition freeze (o : opr) : op :=\n  match r_kind o with\n  | KBuildFile => OBuildFile %s\n"
               "  | KSubbuild => OSubbuild %s\n  end." % (bf, sb))
    out.append("Definition freeze_s (o : sopr) : op := OSimple (s_q o) (s_return_value o) (s_exception_type_str o).")
    return "\n".join(out) + "\n"


HEADER = """(* GENERATED by tools/translate/operations_tr.py from file_builder/file_builder.py (class FileBuilder, the
   operations: build_file*, subbuild, the queries, the cache validation) and file_builder/operation.py.
   Do not edit: regenerate with
     python tools/translate/operations_tr.py /repo coq/Gen/OpsGen.v
   The equalities with the hand-written model (Model/Builder.v, Model/Run.v) are in Proofs/OpsGenLaws.v. *)
From Coq Require Import List String NArith ZArith Bool Arith.
From FB.Base Require Import PyVal Fs.
From FB.Gen Require Import JsonUtilGen.
From FB.Model Require Import Types Monad CreatedFiles BuildDirs SimpleOps Builder.
Import ListNotations.
Open Scope list_scope.
Open Scope m_scope.

(* ---- the operation objects under construction (operation.py) ---- *)
"""

PRELUDE = """
(* ---- the builder object: the two fields a FileBuilder does not share with its sub-builders ---- *)
Record bstate := { b_op : option opr; b_finished_build : bool }.
Definition BM (A : Type) : Type := bstate -> world -> (bstate * world) * (A + exn).
Definition bret {A} (a : A) : BM A := fun b w => ((b, w), inl a).
Definition braise {A} (e : exn) : BM A := fun b w => ((b, w), inr e).
Definition bbind {A B} (m : BM A) (f : A -> BM B) : BM B :=
  fun b w => match m b w with
             | ((b', w'), inl a) => f a b' w'
             | ((b', w'), inr e) => ((b', w'), inr e)
             end.
Definition battempt {A} (m : BM A) : BM (A + exn) :=
  fun b w => match m b w with ((b', w'), r) => ((b', w'), inl r) end.
Definition lift {A} (m : M A) : BM A :=
  fun b w => match m w with (w', r) => ((b, w'), r) end.
Notation "x <~ m ;; k" := (bbind m (fun x => k)) (at level 61, m at next level, right associativity) : m_scope.
Notation "m ;;~ k" := (bbind m (fun _ => k)) (at level 61, right associativity) : m_scope.

(* self._operation: None is the root builder; an attribute of None is AttributeError *)
Definition self_opt : BM (option opr) := fun b w => ((b, w), inl (b_op b)).
Definition self_op : BM opr :=
  fun b w => match b_op b with
             | Some o => ((b, w), inl o)
             | None => ((b, w), inr (XCrash "AttributeError"))
             end.
(* the same when an attribute only a BuildFileOperation has is read *)
Definition self_op_bf : BM opr :=
  fun b w => match b_op b with
             | Some o => match r_kind o with
                         | KBuildFile => ((b, w), inl o)
                         | KSubbuild => ((b, w), inr (XCrash "AttributeError"))
                         end
             | None => ((b, w), inr (XCrash "AttributeError"))
             end.
Definition self_finished_build : BM bool := fun b w => ((b, w), inl (b_finished_build b)).
Definition self_update (f : opr -> opr) : BM unit :=
  fun b w => match b_op b with
             | Some o => (({| b_op := Some (f o); b_finished_build := b_finished_build b |}, w), inl tt)
             | None => ((b, w), inr (XCrash "AttributeError"))
             end.
(* sub = FileBuilder(o, <the shared objects>); sub.m(...): m runs on a fresh builder whose record is o; the
   caller gets the record back whatever happens *)
Definition run_sub {A} (o : opr) (m : BM A) : BM (opr * (A + exn)) :=
  fun b w => match m {| b_op := Some o; b_finished_build := false |} w with
             | ((b', w'), r) => ((b, w'), inl (match b_op b' with Some o' => o' | None => o end, r))
             end.
(* func( *args, **kwargs ) with args = [self, filename] + a / [self] + a: the user function is a [body]
   (Model/Builder.v): it runs in the world and yields its outcome and the records it appended to the
   suboperations of the builder it was given; the model logs the invocation *)
Definition ufunc : Type := option path -> pyval -> pyval -> body.
Definition call_user (func : ufunc) (ua : option path * pyval) (kw : pyval) : BM pyval :=
  fun b w =>
    match b_op b with
    | None => ((b, w), inr (XCrash "AttributeError"))
    | Some o =>
        let w2 := set_log (LInvoke (r_func_name o) (fst ua) (snd ua) kw :: w_log w) w in
        let '(w3, (res, subs)) := func (fst ua) (snd ua) kw w2 in
        (({| b_op := Some (set_r_suboperations o (r_suboperations o ++ subs));
             b_finished_build := b_finished_build b |}, w3), res)
    end.

(* ---- primitives (the table of tools/translate/OPSGEN_NOTES.md) ---- *)
(* Cache.get_subbuild(key): None when absent or in progress *)
Definition cache_get_subbuild (c : cache) (k : pyval) : option op :=
  match subs_get (c_subs c) k with Some o => o | None => None end.
(* exception.__class__.__name__ of an OSError / comparison of two exception_type_str *)
Definition exn_os_class (e : exn) : option errclass := match e with XOS c => Some c | _ => None end.
Definition oerr_eqb (a b : option errclass) : bool :=
  match a, b with
  | None, None => true
  | Some x, Some y => errclass_eqb x y
  | _, _ => false
  end.
Definition is_type (e : exn) : bool := match e with XType => true | _ => false end.
(* CreatedFiles.error_building_file: KeyError when the file was not started *)
Definition m_cf_error (cf : cfiles) (p : path) : M cfiles :=
  match cf_error cf p with
  | Some c => ret c
  | None => raise (XCrash "KeyError in CreatedFiles.error_building_file")
  end.
(* open(filename, 'r' / 'rb'): the content stands for the file object *)
Definition m_open_read (p : path) : M pyval :=
  fun w => match lookup (w_fs w) p with
           | Some (NFile f) => (w, inl (PStr (f_bytes f)))
           | Some NDir => (w, inr (XOS XIsADirectory))
           | None => (w, inr (XOS (err_of (stat_err (w_fs w) p))))
           end.
"""


def is_doc(s):
    return isinstance(s, ast.Expr) and isinstance(s.value, ast.Constant) and isinstance(s.value.value, str)


def is_logger(s):
    return (isinstance(s, ast.Expr) and isinstance(s.value, ast.Call) and isinstance(s.value.func, ast.Attribute)
            and isinstance(s.value.func.value, ast.Name) and s.value.func.value.id == "logger")


def own_call(e):
    """e is self.m(...) / FileBuilder.m(...) -> m"""
    if (isinstance(e, ast.Call) and isinstance(e.func, ast.Attribute) and isinstance(e.func.value, ast.Name)
            and e.func.value.id in ("self", CLASS)):
        return e.func.attr
    return None


class MethodTr:
    def __init__(self, tr, name):
        self.tr, self.name, self.fn, self.sig, self.sigs = tr, name, tr.methods[name], tr.sigs[name], tr.sigs
        self.bm = self.sig.bm
        self.gname = gname(name)
        self.nfresh, self.nloops = 0, 0
        self.names = {n.id for n in ast.walk(self.fn) if isinstance(n, ast.Name)} | {a.arg for a in self.fn.args.args}
        self.scope, self.aux = {}, []
        self.in_read, self.wv, self.ov, self.ov_bf = False, None, None, False
        self.exc_var, self.ret_wrap, self.hook = None, None, None
        self.rec_map, self.rec_params, self.rec_inst = {}, [], {}
        self.loop_ctx, self.loop_free = None, []

    def fail(self, msg, node):
        raise TranslationError("%s:%d: %s" % (self.tr.path, getattr(node, "lineno", 0), msg))

    def fresh(self, base, typ=None):
        self.nfresh += 1
        while "%s%d_" % (base, self.nfresh) in self.names:
            self.nfresh += 1
        v = "%s%d_" % (base, self.nfresh)
        if typ:
            self.scope[v] = typ
        return v

    def declare(self, name, kind):
        """the Coq variable of the Python local `name`"""
        v = cname(name)
        if kind in KTYPE:
            self.scope[v] = KTYPE[kind]
        return v

    # ---- the monad of this method ----
    def RET(self, x):
        return ("bret %s" if self.bm else "ret %s") % x

    def RAISE(self, x):
        return ("braise %s" if self.bm else "raise %s") % x

    def BIND(self, v, m, k):
        return "%s %s %s ;;\n%s" % (v, "<~" if self.bm else "<-", m, k)

    def SEQ(self, m, k):
        return "%s %s\n%s" % (m, ";;~" if self.bm else ";;;", k)

    def LIFT(self, txt):
        return "lift %s" % txt if self.bm else txt

    def ATTEMPT(self, txt):
        return ("battempt (\n%s)" if self.bm else "attempt (\n%s)") % ind(txt, 2)

    def mtype(self, t):
        return ("BM (%s)" if self.bm else "M (%s)") % t

    # ---- reads of the world / of self._operation: a snapshot taken before the statement ----
    def reading(self, f):
        saved = (self.in_read, self.wv, self.ov, self.ov_bf)
        self.in_read, self.wv, self.ov, self.ov_bf = True, None, None, False
        try:
            r = f()
            pre = ""
            if self.wv:
                pre += "%s %s %s ;;\n" % (self.wv, "<~" if self.bm else "<-", self.LIFT("get"))
            if self.ov:
                pre += "%s <~ %s ;;\n" % (self.ov, "self_op_bf" if self.ov_bf else "self_op")
        finally:
            self.in_read, self.wv, self.ov, self.ov_bf = saved
        return pre, r

    def world(self, node):
        if not self.in_read:
            self.fail("internal: world read outside a statement", node)
        if self.wv is None:
            self.wv = self.fresh("w", "world")
        return self.wv

    def snap(self, node, bf=False):
        if not self.bm:
            self.fail("self._operation in a method classified as not using the builder state", node)
        if not self.in_read:
            self.fail("internal: read of self._operation outside a statement", node)
        if self.ov is None:
            self.ov = self.fresh("o", "opr")
        self.ov_bf = self.ov_bf or bf
        return self.ov

    def pure(self, e, env):
        return self.reading(lambda: self.expr(e, env))

    # ---- kinds ----
    def want(self, t, kind, node):
        if t.kind == kind:
            return t
        if t.kind == "none" and kind == "json":
            return T("PNone", "json")
        if t.kind == "none" and kind in ("errname", "oop", "ocf"):
            return T("None", kind)
        if t.kind == "emptylist" and kind in ("ops", "paths"):
            return T("[]", kind)
        if t.kind == "cfiles" and kind == "ocf":
            return T("(Some %s)" % t.txt, "ocf")
        if t.kind == "opr" and kind == "op":
            return T("(freeze %s)" % t.txt, "op")
        if t.kind == "sopr" and kind == "op":
            return T("(freeze_s %s)" % t.txt, "op")
        if t.kind == "selfop" and kind == "opr":
            return T(self.snap(node), "opr")
        if t.kind == "op" and kind == "oop":
            return T("(Some %s)" % t.txt, "oop")
        self.fail("expected %s, found %s (%s)" % (kind, t.kind, t.txt[:40]), node)

    # ---- records ----
    def attr_of(self, x, attr, node, var=None):
        if x.kind == "selfop":
            if x.known == "none":
                raise PyAttributeError()
            ent = [a for a in OPR_ATTRS if a[0] == attr]
            if not ent:
                raise PyAttributeError()
            o = self.snap(node, bf=ent[0][2] == ("BuildFile",))
            return T("(r_%s %s)" % (attr, o), ent[0][1])
        if x.kind == "opr":
            ent = [a for a in OPR_ATTRS if a[0] == attr]
            if not ent or (x.cls and x.cls not in ent[0][2]):
                raise PyAttributeError()
            return T("(r_%s %s)" % (attr, x.txt), ent[0][1])
        if x.kind == "sopr":
            if attr in ("name", "args"):
                return T("(s_q %s)" % x.txt, "q" + attr)
            ent = [a for a in SOPR_ATTRS if a[0] == attr]
            if not ent:
                raise PyAttributeError()
            return T("(s_%s %s)" % (attr, x.txt), ent[0][1])
        if x.kind == "op":
            if x.ctor is None:
                if var is None or not re.fullmatch(r"\w+", x.txt):
                    self.fail("attribute of a record that is not a plain variable", node)
                raise NeedSplit(var)
            if x.ctor == "Simple" and attr in ("name", "args"):
                return T(x.fields["q"][0], "q" + attr)
            if attr in x.fields:
                return T(x.fields[attr][0], x.fields[attr][1])
            if attr in OP_UNMODELLED and x.ctor != "Simple" or attr == "is_finished":
                self.fail("the attribute %s of a cached record is not modelled" % attr, node)
            raise PyAttributeError()
        self.fail("attribute %s of a %s" % (attr, x.kind), node)

    def split(self, var, env, k):
        x = env[var]
        if x.kind != "op" or x.ctor is not None:
            self.fail("internal: split of %r" % var, self.fn)
        arms = []
        for key in ("Simple", "BuildFile", "Subbuild"):
            coq, pat = OP_PAT[key]
            binders, fields = [], {}
            for attr, kind in pat:
                b = "%s_%s" % (x.txt, attr)
                if b in self.names or b in RESERVED:
                    self.fail("the name %r is needed for a pattern variable" % b, self.fn)
                binders.append(b)
                fields[attr] = (b, kind)
                self.scope[b] = KTYPE[kind]
            env2 = dict(env)
            env2[var] = T(x.txt, "op", ctor=key, fields=fields)
            body = k(env2)
            pt = " ".join(b if occurs(b, body) else "_" for b in binders)
            arms.append(" | %s %s =>\n%s" % (coq, pt, ind(body, 4)))
        return "(match %s with\n%s\n end)" % (x.txt, "\n".join(arms))

    def isinstance_of(self, key, cls, node):
        bases = self.tr.bases
        if cls not in bases:
            self.fail("isinstance with the unknown class %s" % cls, node)
        c = CLASSES[key]
        while c:
            if c == cls:
                return True
            c = bases[c]
        return False

    # ---- messages (exception / log texts): not modelled ----
    def is_msg(self, e):
        if isinstance(e, ast.Constant) and isinstance(e.value, str):
            return True
        mc = method_call(e)
        if mc and mc[1] == "format" and isinstance(mc[0], ast.Constant) and isinstance(mc[0].value, str):
            return all(re.fullmatch(r"[A-Za-z_][\w.]*", ast.unparse(a)) for a in mc[2])
        return isinstance(e, ast.Name) and e.id in PARAMS and PARAMS[e.id] == "msg"

    # ---- pure expressions ----
    def expr(self, e, env):
        if isinstance(e, ast.Constant) and isinstance(e.value, bool):
            return T("true" if e.value else "false", "bool", const=e.value)
        if is_none(e):
            return T("None", "none")
        if isinstance(e, ast.Name):
            if e.id not in env:
                self.fail("unknown or no longer valid name %r" % e.id, e)
            return env[e.id]
        if isinstance(e, ast.List) and not e.elts:
            return T("[]", "emptylist")
        if isinstance(e, ast.UnaryOp) and isinstance(e.op, ast.Not):
            a = self.want(self.expr(e.operand, env), "bool", e)
            if a.const is not None:
                return T("false" if a.const else "true", "bool", const=not a.const)
            return T("(negb %s)" % a.txt, "bool")
        if isinstance(e, ast.BoolOp):
            ts = []
            for x in e.values:                       # an operand after a deciding constant is not evaluated
                ts.append(self.want(self.expr(x, env), "bool", e))
                if ts[-1].const is not None and ts[-1].const != isinstance(e.op, ast.And):
                    break
            return self.boolop(e, ts)
        if isinstance(e, ast.Compare) and len(e.ops) == 1:
            return self.compare(e, e.ops[0], e.left, e.comparators[0], env)
        if isinstance(e, ast.BinOp) and isinstance(e.op, ast.Add) and isinstance(e.left, ast.List):
            # [self, filename] + args / [self] + args: the argument list of the user function
            el = e.left.elts
            if el and isinstance(el[0], ast.Name) and el[0].id == "self" and len(el) <= 2:
                rest = self.want(self.expr(e.right, env), "json", e)
                tgt = "(Some %s)" % self.want(self.expr(el[1], env), "path", e).txt if len(el) == 2 else "None"
                return T("(%s, %s)" % (tgt, rest.txt), "uargs")
        if isinstance(e, ast.Attribute):
            return self.attribute(e, env)
        if isinstance(e, ast.Call):
            return self.call(e, env)
        self.fail("expression %s" % ast.unparse(e)[:60], e)

    def boolop(self, e, ts):
        isand = isinstance(e.op, ast.And)
        out = []
        for t in ts:
            if t.const is not None:
                if t.const != isand:                     # false in an `and`, true in an `or`: decides (operands before
                    out.append(t)                        # it are still evaluated, they are pure)
                    break
                continue
            out.append(t)
        if not out:
            return T("true" if isand else "false", "bool", const=isand)
        if len(out) == 1 and out[0].const is not None:
            return out[0]
        r = out[-1].txt
        for x in reversed(out[:-1]):
            r = "(%s %s %s)" % ("andb" if isand else "orb", x.txt, r)
        return T(r, "bool")

    def compare(self, e, op, l, r, env):
        if isinstance(op, (ast.Is, ast.IsNot)) and is_none(r):
            x = self.expr(l, env)
            pos = isinstance(op, ast.Is)
            if x.kind == "selfop":
                if x.known is None:
                    self.fail("`is None` on self._operation outside the test of an if", e)
                v = (x.known == "none") == pos
                return T("true" if v else "false", "bool", const=v)
            if x.kind == "op":                         # already unwrapped by an enclosing `is not None`
                return T("false" if pos else "true", "bool", const=not pos)
            if x.kind == "none":
                return T("true" if pos else "false", "bool", const=pos)
            a, b = ("true", "false") if pos else ("false", "true")
            if x.kind == "json":
                return T("(match %s with PNone => %s | _ => %s end)" % (x.txt, a, b), "bool")
            if x.kind in ("oop", "errname"):
                return T("(match %s with None => %s | Some _ => %s end)" % (x.txt, a, b), "bool")
            self.fail("`is None` on a %s" % x.kind, e)
        if isinstance(op, (ast.Eq, ast.NotEq)):
            a, b = self.expr(l, env), self.expr(r, env)
            fn = {"str": "String.eqb", "errname": "oerr_eqb", "path": "path_eqb", "bool": "Bool.eqb"}.get(a.kind)
            if b.kind == "none" and a.kind == "errname":
                b = self.want(b, "errname", e)
            if fn is None or b.kind != a.kind:
                self.fail("comparison of a %s with a %s" % (a.kind, b.kind), e)
            txt = "(%s %s %s)" % (fn, a.txt, b.txt)
            return T(txt if isinstance(op, ast.Eq) else "(negb %s)" % txt, "bool")
        if isinstance(op, (ast.In, ast.NotIn)) and ast.unparse(r) == "SimpleOperationExecutor.OPERATIONS":
            self.want(self.expr(l, env), "qname", e)   # a name taken from a query: always an operation
            v = isinstance(op, ast.In)
            return T("true" if v else "false", "bool", const=v)
        self.fail("comparison %s" % ast.unparse(e)[:60], e)

    def attribute(self, e, env):
        src = ast.unparse(e)
        if src in ("FileComparison.METADATA", "FileComparison.HASH"):
            return T(e.attr, "cmp")
        if src == "self._operation":
            return T("", "selfop")
        if (isinstance(e.value, ast.Attribute) and e.attr == "__name__" and e.value.attr == "__class__"
                and isinstance(e.value.value, ast.Name)):
            x = self.expr(e.value.value, env)
            if x.kind != "exc" or x.cls != "os":
                # the model only has names for the classes of OSError (errclass)
                self.fail("__class__.__name__ of something other than an exception caught as OSError", e)
            return T("(exn_os_class %s)" % x.txt, "errname")
        if self_attr(e):
            self.fail("the attribute self.%s used as a value" % e.attr, e)
        if src == "self._operation." + e.attr:
            return self.attr_of(T("", "selfop"), e.attr, e)
        if not isinstance(e.value, ast.Name):
            self.fail("expression %s" % src[:60], e)
        x = self.expr(e.value, env)
        if x.kind == "cmp" and e.attr == "name":
            return x
        return self.attr_of(x, e.attr, e, var=e.value.id)

    def args_of(self, args, kinds, env, node, what, fmt=None):
        if len(args) != len(kinds):
            self.fail("arity of %s" % what, node)
        out = []
        for i, (a, k) in enumerate(zip(args, kinds)):
            if k == "msg":
                if not self.is_msg(a):
                    self.fail("message %s" % ast.unparse(a)[:50], a)
                continue
            if fmt is not None and k == "opr" and "{%d}" % i not in fmt:
                # a record the model routine does not look at (it is only used in a message)
                if self.expr(a, env).kind not in ("opr", "selfop"):
                    self.fail("expected a record", a)
                out.append("")
                continue
            out.append(self.want(self.expr(a, env), k, a).txt)
        return out

    def receiver(self, node):
        a = self_attr(node)
        if a in ATTRS:
            kind, fmt = ATTRS[a]
            return a, kind, fmt
        return None

    def call(self, e, env):
        name = ast.unparse(e.func)
        if e.keywords:
            self.fail("keyword arguments in %s" % name, e)
        if name in ("os.path.normcase", "copy.deepcopy") and len(e.args) == 1:
            return self.expr(e.args[0], env)
        if name == "callable" and len(e.args) == 1:
            self.want(self.expr(e.args[0], env), "func", e)
            return T("true", "bool", const=True)
        if name == "isinstance" and len(e.args) == 2 and isinstance(e.args[1], ast.Name):
            cls = e.args[1].id
            x = self.expr(e.args[0], env)
            if (x.kind, cls) in STATIC_ISINSTANCE:
                return T("true", "bool", const=True)
            if x.kind == "op":
                if x.ctor is None:
                    if not isinstance(e.args[0], ast.Name):
                        self.fail("isinstance of something other than a variable", e)
                    raise NeedSplit(e.args[0].id)
                v = self.isinstance_of(x.ctor, cls, e)
                return T("true" if v else "false", "bool", const=v)
            if x.kind == "opr" and x.cls:
                v = self.isinstance_of(x.cls, cls, e)
                return T("true" if v else "false", "bool", const=v)
            if x.kind == "selfop":
                if x.known == "none":
                    return T("false", "bool", const=False)
                bf, sb = self.isinstance_of("BuildFile", cls, e), self.isinstance_of("Subbuild", cls, e)
                if bf == sb:
                    if x.known != "some":
                        self.fail("isinstance of self._operation before `is not None`", e)
                    return T("true" if bf else "false", "bool", const=bf)
                o = self.snap(e)
                return T("(match r_kind %s with KBuildFile => %s | KSubbuild => %s end)" % (
                    o, "true" if bf else "false", "true" if sb else "false"), "bool")
            self.fail("isinstance(%s, %s)" % (x.kind, cls), e)
        if name in PRIM_PURE:
            fmt, kinds, kind = PRIM_PURE[name]
            ts = self.args_of(e.args, kinds, env, e, name)
            return T(fmt.format(*ts, w=self.world(e) if "{w}" in fmt else ""), kind)
        if name == "CreatedFiles" and not e.args:
            return T("cf_empty", "cfiles")
        if name == "Cache.subbuild_key" and len(e.args) == 1 and isinstance(e.args[0], ast.Name):
            x = self.expr(e.args[0], env)
            ts = [self.attr_of(x, a, e, var=e.args[0].id) for a in ("func_name", "args", "kwargs")]
            return T("(subbuild_key %s)" % " ".join(t.txt for t in ts), "json")
        if name in ("BuildFileOperation", "SubbuildOperation"):
            key = [k for k, c in CLASSES.items() if c == name][0]
            ps = self.tr.ctors[key]
            kinds = {a: k for a, k, _, _ in OPR_ATTRS}
            ts = self.args_of(e.args, [kinds[a] for _, a, _ in ps], env, e, name)
            return T("(new_%s %s)" % (name, " ".join(ts)), "opr", cls=key)
        if name == "SimpleOperation":
            return self.simple_operation(e, env)
        m = own_call(e)
        if m in OWN_PURE:
            fmt, kinds, kind = OWN_PURE[m]
            ts = self.args_of(e.args, kinds, env, e, m)
            return T(fmt.format(*ts), kind, const=True if fmt == "true" else None)
        mc = method_call(e)
        if mc:
            rc = self.receiver(mc[0])
            if rc and (rc[1], mc[1]) in PURE_CALLS:
                fmt, kinds, kind = PURE_CALLS[(rc[1], mc[1])]
                ts = self.args_of(mc[2], kinds, env, e, mc[1])
                w = self.world(e) if ((rc[2] and "{recv}" in fmt) or "{w}" in fmt) else ""
                return T(fmt.format(*ts, recv=(rc[2] or "").format(w=w), w=w), kind)
        self.fail("call %s" % ast.unparse(e)[:60], e)

    def simple_operation(self, e, env):
        """SimpleOperation('<name>', [args]) -> the record of the query (table QUERIES of executor_tr.py)"""
        ps = self.tr.ctors["Simple"]
        if (len(e.args) != 2 or not isinstance(e.args[0], ast.Constant) or e.args[0].value not in QUERIES
                or not isinstance(e.args[1], ast.List) or [p for p, _, _ in ps[:2]] != ["name", "args"]):
            self.fail("SimpleOperation(...) other than ('<operation name>', [arguments])", e)
        ctor, kinds = QUERIES[e.args[0].value]
        kmap = {"path": "path", "bool": "bool", "cmp": "cmp"}
        ts = self.args_of(e.args[1].elts, [kmap[k] for k in kinds], env, e, "the operation " + e.args[0].value)
        dfl = []
        for p, a, d in ps[2:]:
            kind = dict(SOPR_ATTRS)[a]
            if d is None or not (is_none(d) or (isinstance(d, ast.Constant) and d.value is False)):
                self.fail("default of SimpleOperation.%s" % p, e)
            dfl.append({"json": "PNone", "errname": "None", "bool": "false"}[kind])
        return T("(new_SimpleOperation (%s %s) %s)" % (ctor, " ".join(ts), " ".join(dfl)), "sopr")

    # ---- calls in the monad: -> (prefix, text in the monad of this method, kind, threaded cfiles variable) or None ----
    def mcall(self, e, env):
        if isinstance(e, ast.Attribute) and ast.unparse(e) == "self._is_finished_build":
            return "", "self_finished_build", "bool", None
        if not isinstance(e, ast.Call):
            return None
        name = ast.unparse(e.func)
        table = None
        mc = method_call(e)
        m = own_call(e)
        if name in PRIM_MONADIC:
            table, args = PRIM_MONADIC[name], e.args
        elif name == "open":
            if (len(e.args) != 2 or e.keywords or not isinstance(e.args[1], ast.Constant) or e.args[1].value not in ("r", "rb")):
                self.fail("open() other than open(<file>, 'r' / 'rb')", e)
            table, args = ("(m_open_read {0})", ["path"], "json"), e.args[:1]
        elif mc and self_attr(mc[0]) and (self_attr(mc[0]), mc[1]) in MONADIC_CALLS:
            table, args = MONADIC_CALLS[(self_attr(mc[0]), mc[1])], mc[2]
        elif m in OWN_MODEL and not e.keywords:
            table, args = OWN_MODEL[m], e.args
        if table:
            fmt, kinds, kind = table
            if e.keywords:
                self.fail("keyword arguments in %s" % name, e)
            pre, ts = self.reading(lambda: (self.args_of(args, kinds, env, e, name, fmt),
                                            self.snap(e, bf=True) if "{self}" in fmt else ""))
            return pre, self.LIFT(fmt.format(*ts[0], self=ts[1])), kind, None
        if mc and self_attr(mc[0]) == "_simple_operation_executor" and mc[1] == "exec" and len(mc[2]) == 3:
            def f():
                a, b = self.expr(mc[2][0], env), self.expr(mc[2][1], env)
                if a.kind != "qname" or b.kind != "qargs" or a.txt != b.txt:
                    self.fail("exec(name, args, ..) whose name and args are not those of one SimpleOperation", e)
                return a.txt, self.want(self.expr(mc[2][2], env), "ocf", e).txt
            pre, (q, cf) = self.reading(f)
            return pre, self.LIFT("(exec_query %s %s)" % (q, cf)), "json", None
        if mc and isinstance(mc[0], ast.Name) and mc[0].id in env and env[mc[0].id].kind == "cfiles" and mc[1] in CF_MONADIC:
            cf = env[mc[0].id]
            pre, ts = self.reading(lambda: self.args_of(mc[2], ["path"], env, e, mc[1]))
            return pre, self.LIFT(CF_MONADIC[mc[1]].format(*ts, cf=cf.txt)), "cfiles!", mc[0].id
        if isinstance(e.func, ast.Name) and e.func.id in env and env[e.func.id].kind == "func":
            if (len(e.args) != 1 or not isinstance(e.args[0], ast.Starred) or len(e.keywords) != 1 or e.keywords[0].arg is not None):
                self.fail("call of the user function other than func(*args, **kwargs)", e)
            def f():
                return (self.want(self.expr(e.args[0].value, env), "uargs", e).txt,
                        self.want(self.expr(e.keywords[0].value, env), "json", e).txt)
            pre, (ua, kw) = self.reading(f)
            if not self.bm:
                self.fail("internal: user call in M", e)
            return pre, "(call_user %s %s %s)" % (env[e.func.id].txt, ua, kw), "json", None
        if m in self.sigs:
            return self.own_mcall(e, m, env)
        return None

    def own_mcall(self, e, m, env):
        h = self.sigs[m]
        args, kws = list(e.args), list(e.keywords)
        kinds = [k for _, k in h.params]
        if h.varargs:
            if not (args and isinstance(args[-1], ast.Starred) and len(kws) == 1 and kws[0].arg is None):
                self.fail("call of %s without *args, **kwargs" % m, e)
            args = args[:-1] + [args[-1].value, kws[0].value]
        elif kws:
            self.fail("keyword arguments in the call of %s" % m, e)
        outvar = [None]

        def f():
            ts = self.args_of(args, kinds, env, e, m)
            if h.cf_out:
                i = [p for p, _ in h.params].index(h.cf_param)
                if isinstance(args[i], ast.Name):
                    outvar[0] = args[i].id
            return ts
        pre, ts = self.reading(f)
        if h.retkind is None:
            self.fail("result kind of %s is not known here" % m, e)
        head = self.rec_map.get(m, gname(m))
        txt = "(%s)" % " ".join([head] + ts) if ts else head
        if h.bm and not self.bm:
            self.fail("internal: %s uses the builder state, its caller does not" % m, e)
        if not h.bm:
            txt = self.LIFT(txt)
        return pre, txt, (h.retkind + "*cf" if h.cf_out else h.retkind), outvar[0]

    # ---- results ----
    def set_retkind(self, kind, node):
        g = self.sig
        if kind == "op" and (g.has_none or g.retkind == "oop"):
            kind = "oop"
        if kind not in KTYPE:
            self.fail("cannot type the returned value (%s)" % kind, node)
        if g.retkind is None:
            g.retkind = kind
        if g.retkind != kind:
            self.fail("return kinds %s and %s" % (g.retkind, kind), node)

    def emit_full(self, full, env):
        """return the value `full` (already in the result encoding of the method)"""
        if self.ret_wrap:
            full = self.ret_wrap(full)
        out = self.RET(full)
        return self.hook(env, out) if self.hook else out

    def emit_return(self, t, env, node):
        g = self.sig
        if t is None or t.kind == "none":
            if g.retkind is None:
                if g.has_value:
                    self.fail("`return None` before the kind of the result is known", node)
                g.retkind = "unit"
            v = {"unit": "tt", "json": "PNone", "oop": "None"}.get(g.retkind)
            if v is None:
                self.fail("None returned from a method that returns a %s" % g.retkind, node)
        else:
            self.set_retkind(t.kind, node)
            v = self.want(t, g.retkind, node).txt
        if g.cf_out:
            v = "(%s, %s)" % (v, env[g.cf_param].txt)
        return self.emit_full(v, env)

    def emit_raise(self, exn, env):
        out = self.RAISE(exn)
        return self.hook(env, out) if self.hook else out

    def frozen(self, f):
        ctx = (self.ret_wrap, self.hook, self.exc_var, self.loop_ctx)

        def g(*a):
            saved = (self.ret_wrap, self.hook, self.exc_var, self.loop_ctx)
            self.ret_wrap, self.hook, self.exc_var, self.loop_ctx = ctx
            try:
                return f(*a)
            finally:
                self.ret_wrap, self.hook, self.exc_var, self.loop_ctx = saved
        return g

    # ---- monadic pieces ----
    def is_mleaf(self, e, env):
        if isinstance(e, ast.Attribute):
            return ast.unparse(e) == "self._is_finished_build"
        if not isinstance(e, ast.Call):
            return False
        name = ast.unparse(e.func)
        mc = method_call(e)
        m = own_call(e)
        if name in PRIM_MONADIC or name == "open" or m in OWN_MODEL or m in self.sigs:
            return True
        if mc and self_attr(mc[0]) and ((self_attr(mc[0]), mc[1]) in MONADIC_CALLS or mc[1] == "exec"):
            return True
        if mc and isinstance(mc[0], ast.Name) and mc[0].id in env and env[mc[0].id].kind == "cfiles" and mc[1] in CF_MONADIC:
            return True
        return isinstance(e.func, ast.Name) and e.func.id in env and env[e.func.id].kind == "func"

    def contains_m(self, e, env):
        if isinstance(e, ast.UnaryOp) and isinstance(e.op, ast.Not):
            return self.contains_m(e.operand, env)
        if isinstance(e, ast.BoolOp):
            return any(self.contains_m(v, env) for v in e.values)
        return self.is_mleaf(e, env)

    def bind_mcall(self, c, env, kont, hint=None):
        """run the call c = mcall(..), then kont(value T or None, env)"""
        pre, txt, kind, outvar = c
        if kind == "cfiles!":
            v = self.declare(outvar, "cfiles")
            env2 = dict(env)
            env2[outvar] = T(v, "cfiles")
            return pre + self.BIND(v, txt, kont(None, env2))
        if kind.endswith("*cf"):
            base = kind[:-3]
            r = self.fresh("r", "(%s * cfiles)" % KTYPE[base])
            env2, mid = dict(env), ""
            if outvar:
                v = self.declare(outvar, "cfiles")
                env2[outvar] = T(v, "cfiles")
                mid = "let %s := snd %s in\n" % (v, r)
            return pre + self.BIND(r, txt, mid + kont(T("(fst %s)" % r, base), env2))
        if kind == "unit":
            return pre + self.SEQ(txt, kont(None, env))
        v = self.declare(hint, kind) if hint else self.fresh("r", KTYPE[kind])
        return pre + self.BIND(v, txt, kont(T(v, kind), env))

    def mcomp(self, e, env):
        """a boolean expression with calls in it -> a computation of a bool, short-circuit as in Python"""
        if isinstance(e, ast.UnaryOp) and isinstance(e.op, ast.Not) and self.contains_m(e.operand, env):
            x = self.fresh("c", "bool")
            return self.BIND(x, "(%s)" % self.mcomp(e.operand, env), self.RET("(negb %s)" % x))
        if isinstance(e, ast.BoolOp) and self.contains_m(e, env):
            isand = isinstance(e.op, ast.And)
            groups = []
            for v in e.values:
                if self.contains_m(v, env):
                    groups.append(("m", v))
                elif groups and groups[-1][0] == "p":
                    groups[-1][1].append(v)
                else:
                    groups.append(("p", [v]))
            short = self.RET("false" if isand else "true")
            txt = None
            for kind, g in reversed(groups):
                if kind == "p":
                    node = g[0] if len(g) == 1 else ast.copy_location(ast.BoolOp(e.op, g), e)
                    pre, t = self.pure(node, env)
                    t = self.want(t, "bool", e)
                    if t.const is not None:
                        if t.const == isand:
                            txt = txt if txt is not None else self.RET("true" if isand else "false")
                        else:
                            txt = short
                    elif txt is None:
                        txt = pre + self.RET(t.txt)
                    elif isand:
                        txt = pre + "(if %s then\n%s\n else %s)" % (t.txt, ind(txt, 4), short)
                    else:
                        txt = pre + "(if %s then %s else\n%s)" % (t.txt, short, ind(txt, 4))
                else:
                    m = self.mcomp(g, env)
                    if txt is None:
                        txt = m
                    else:
                        x = self.fresh("c", "bool")
                        if isand:
                            txt = self.BIND(x, "(%s)" % m, "(if %s then\n%s\n else %s)" % (x, ind(txt, 4), short))
                        else:
                            txt = self.BIND(x, "(%s)" % m, "(if %s then %s else\n%s)" % (x, short, ind(txt, 4)))
            return txt
        c = self.mcall(e, env)
        if c:
            if c[2] == "bool*cf" and c[3] is None:       # the CreatedFiles argument is a fresh object: dropped
                return self.bind_mcall(c, env, lambda t, e2: self.RET(t.txt))
            if c[2] != "bool" or c[3]:
                self.fail("a call that does not simply return a boolean inside a boolean expression", e)
            return c[0] + c[1]
        pre, t = self.pure(e, env)
        return pre + self.RET(self.want(t, "bool", e).txt)

    # ---- statements, in continuation-passing style: k(env) is the text of what follows ----
    def block(self, stmts, env, k):
        if not stmts:
            return k(env)
        return self.stmt(stmts[0], env, stmts[1:], lambda env2: self.block(stmts[1:], env2, k))

    def stmt(self, s, env, rest, k):
        try:
            return self.stmt1(s, env, rest, k)
        except NeedSplit as ns:
            return self.split(ns.var, env, lambda env2: self.stmt(s, env2, rest, k))
        except PyAttributeError:
            return self.emit_raise('(XCrash "AttributeError")', env)

    def stmt1(self, s, env, rest, k):
        if is_doc(s):
            return k(env)
        if is_logger(s):
            for a in s.value.args:
                if not self.is_msg(a):
                    self.fail("logger argument %s" % ast.unparse(a)[:40], s)
            for kw in s.value.keywords:
                if kw.arg != "exc_info":
                    self.fail("logger keyword %s" % kw.arg, s)
            return k(env)
        if isinstance(s, ast.With):
            for it in s.items:
                if it.optional_vars is not None or ast.unparse(it.context_expr) not in LOCK_CTX:
                    self.fail("`with` on something other than a lock of the table LOCK_CTX", s)
            return self.block(s.body, env, k)
        if isinstance(s, (ast.Return, ast.Raise)) and rest:
            self.fail("dead code after return / raise", rest[0])
        if isinstance(s, ast.Return):
            return self.stmt_return(s, env)
        if isinstance(s, ast.Raise):
            return self.stmt_raise(s, env)
        if isinstance(s, ast.Assign) and len(s.targets) == 1:
            return self.stmt_assign(s, s.targets[0], env, k)
        if isinstance(s, ast.Expr):
            return self.stmt_call(s, env, k)
        if isinstance(s, ast.If):
            return self.stmt_if(s, env, k)
        if isinstance(s, ast.For):
            return self.stmt_for(s, env, k)
        if isinstance(s, ast.Try):
            return self.stmt_try(s, env, k)
        self.fail("statement %s" % ast.unparse(s).split("\n")[0][:60], s)

    def stmt_raise(self, s, env):
        if s.cause is not None:
            self.fail("raise ... from", s)
        if s.exc is None:
            if not self.exc_var:
                self.fail("bare raise outside an except clause", s)
            return self.emit_raise(self.exc_var, env)
        x = s.exc
        cls = x.func.id if isinstance(x, ast.Call) and isinstance(x.func, ast.Name) else None
        if cls not in ("RuntimeError", "TypeError") or x.keywords or len(x.args) != 1 or not self.is_msg(x.args[0]):
            self.fail("raise %s" % ast.unparse(x)[:60], s)
        if cls == "TypeError":
            return self.emit_raise("XType", env)
        a = x.args[0]
        lit = a.value if isinstance(a, ast.Constant) else a.func.value.value if isinstance(a, ast.Call) else None
        for prefix, term in RUNTIME:
            if lit is not None and lit.startswith(prefix):
                return self.emit_raise("(%s)" % term, env)
        self.fail("RuntimeError message not in the table RUNTIME: %r" % lit, s)

    def stmt_return(self, s, env):
        v = s.value
        if v is None or is_none(v):
            return self.emit_return(None, env, s)
        g = self.sig
        if isinstance(v, ast.Tuple) and len(v.elts) == 2:
            # return (A, B): evaluated left to right
            def step(i, acc, env_):
                if i == 2:
                    return self.emit_return(T("(%s, %s)" % tuple(acc), "jsonpair"), env_, s)
                c = self.mcall(v.elts[i], env_)
                if c:
                    return self.bind_mcall(c, env_, lambda t, e2: step(i + 1, acc + [self.want(t, "json", s).txt], e2))
                pre, t = self.pure(v.elts[i], env_)
                return pre + step(i + 1, acc + [self.want(t, "json", s).txt], env_)
            return step(0, [], env)
        c = self.mcall(v, env)
        if c:
            pre, txt, kind, outvar = c
            tail = not self.hook and (self.ret_wrap is None or getattr(self.ret_wrap, "identity", False))
            if kind.endswith("*cf"):
                tail = tail and g.cf_out and outvar == g.cf_param
                base = kind[:-3]
            else:
                tail = tail and not g.cf_out
                base = kind
            if kind == "cfiles!" or base == "unit":
                self.fail("return of a call that returns nothing", s)
            if tail and not (base == "op" and (g.has_none or g.retkind == "oop")):
                self.set_retkind(base, s)
                return pre + txt
            return self.bind_mcall(c, env, lambda t, e2: self.emit_return(t, e2, s))
        if self.contains_m(v, env):
            x = self.fresh("c", "bool")
            return self.BIND(x, "(%s)" % self.mcomp(v, env), self.emit_return(T(x, "bool"), env, s))
        pre, t = self.pure(v, env)
        return pre + self.emit_return(t, env, s)

    def fall_off(self, env, node):
        g = self.sig
        if g.retkind is None and not g.has_value:
            g.retkind = "unit"
        return self.emit_return(None, env, node)

    # ---- assignments ----
    def local_record(self, e, env):
        """e is a local variable holding a mutable record (opr / sopr) -> its name"""
        if isinstance(e, ast.Name) and e.id in env and env[e.id].kind in ("opr", "sopr") and env[e.id].txt == cname(e.id):
            return e.id
        return None

    def is_selfop(self, e, env):
        if ast.unparse(e) == "self._operation":
            return True
        return isinstance(e, ast.Name) and e.id in env and env[e.id].kind == "selfop"

    def stmt_assign(self, s, tgt, env, k):
        v = s.value
        if isinstance(tgt, ast.Tuple):
            if len(tgt.elts) != 2 or not all(isinstance(x, ast.Name) for x in tgt.elts):
                self.fail("assignment target %s" % ast.unparse(tgt), s)
            c = self.mcall(v, env)
            if not c or c[2] != "jsonpair":
                self.fail("tuple assignment from something other than a call that returns a pair", s)

            def kont(t, env2):
                a, b = self.declare(tgt.elts[0].id, "json"), self.declare(tgt.elts[1].id, "json")
                env3 = dict(env2)
                env3[tgt.elts[0].id], env3[tgt.elts[1].id] = T(a, "json"), T(b, "json")
                return "let %s := fst %s in\nlet %s := snd %s in\n%s" % (a, t.txt, b, t.txt, k(env3))
            return self.bind_mcall(c, env, kont)
        if isinstance(tgt, ast.Attribute):
            attr = tgt.attr
            if self.is_selfop(tgt.value, env):
                ent = [a for a in OPR_ATTRS if a[0] == attr]
                if not ent:
                    self.fail("store to the attribute %s of self._operation" % attr, s)

                def store(t, env2):
                    val = self.want(t, ent[0][1], s).txt
                    return self.SEQ("self_update (fun o_ => set_r_%s o_ %s)" % (attr, val), k(env2))
                c = self.mcall(v, env)
                if c:
                    return self.bind_mcall(c, env, store)
                pre, t = self.pure(v, env)
                return pre + store(t, env)
            rec = self.local_record(tgt.value, env)
            if rec:
                x = env[rec]
                if x.kind == "opr":
                    ent = [(a, kd) for a, kd, cl, _ in OPR_ATTRS if a == attr and (not x.cls or x.cls in cl)]
                    setter = "set_r_" + attr
                else:
                    ent = [(a, kd) for a, kd in SOPR_ATTRS if a == attr]
                    setter = "set_s_" + attr
                if not ent:
                    self.fail("store to the attribute %s of a %s" % (attr, x.kind), s)

                def store(t, env2):
                    val = self.want(t, ent[0][1], s).txt
                    return "let %s := %s %s %s in\n%s" % (x.txt, setter, x.txt, val, k(env2))
                c = self.mcall(v, env)
                if c:
                    return self.bind_mcall(c, env, store)
                pre, t = self.pure(v, env)
                return pre + store(t, env)
            self.fail("store %s" % ast.unparse(tgt), s)
        if not isinstance(tgt, ast.Name):
            self.fail("assignment target %s" % ast.unparse(tgt), s)
        x = tgt.id
        if self.loop_ctx and x in self.loop_free:
            self.fail("loop body assigns %r, which is not threaded through the loop" % x, s)
        env2 = dict(env)
        if ast.unparse(v) == "self._operation":
            env2[x] = T("", "selfop")
            return k(env2)
        if isinstance(v, ast.Call) and ast.unparse(v.func) == CLASS:
            # sub = FileBuilder(<record>, <the shared objects>)
            ok = (not v.keywords and len(v.args) == len(INIT_PARAMS) and self.local_record(v.args[0], env)
                  and env[v.args[0].id].kind == "opr"
                  and all(ast.unparse(a) == "self._" + p for a, p in zip(v.args[1:], INIT_PARAMS[1:])))
            if not ok:
                self.fail("FileBuilder(...) other than (<local record>, self._old_cache, ..., self._build_dirs)", s)
            env2[x] = T("", "subbuilder", obj=v.args[0].id)
            return k(env2)
        if self.is_msg(v) and PARAMS.get(x) == "msg":
            return k(env)                                  # a message: not modelled
        if is_none(v):
            if x not in NONE_LOCALS:
                self.fail("%s = None: the local is not in the table NONE_LOCALS" % x, s)
            kind, txt = NONE_LOCALS[x]
            env2[x] = T(self.declare(x, kind), kind)
            return "let %s := %s in\n%s" % (cname(x), txt, k(env2))
        c = self.mcall(v, env)
        if c:
            if c[2] in ("unit", "cfiles!"):
                self.fail("assignment of a call that returns nothing", s)

            def kont(t, env3):
                env4 = dict(env3)
                if t.txt == cname(x):
                    env4[x] = t
                    return k(env4)
                env4[x] = T(self.declare(x, t.kind), t.kind)
                return "let %s := %s in\n%s" % (cname(x), t.txt, k(env4))
            return self.bind_mcall(c, env, kont, hint=None if c[2].endswith("*cf") else x)
        if self.contains_m(v, env):
            env2[x] = T(self.declare(x, "bool"), "bool")
            return self.BIND(cname(x), "(%s)" % self.mcomp(v, env), k(env2))
        pre, t = self.pure(v, env)
        if t.kind in ("qname", "qargs"):
            env2[x] = t
            return pre + k(env2)
        if t.kind not in KTYPE:
            self.fail("assignment of a %s" % t.kind, s)
        env2[x] = T(self.declare(x, t.kind), t.kind, cls=t.cls)
        return "%slet %s := %s in\n%s" % (pre, cname(x), t.txt, k(env2))

    def stmt_call(self, s, env, k):
        e = s.value
        if not isinstance(e, (ast.Call, ast.Attribute)):
            self.fail("expression statement", s)
        mc = method_call(e) if isinstance(e, ast.Call) else None
        if mc and mc[1] == "append" and ast.unparse(mc[0]) == "self._operation.suboperations" and len(mc[2]) == 1:
            pre, t = self.pure(mc[2][0], env)
            val = self.want(t, "op", s).txt
            return pre + self.SEQ("self_update (fun o_ => set_r_suboperations o_ (r_suboperations o_ ++ [%s]))" % val, k(env))
        if mc and isinstance(mc[0], ast.Name) and mc[0].id in env and env[mc[0].id].kind == "cfiles" and mc[1] in CF_MUTATORS:
            n = mc[0].id
            if self.loop_ctx and n in self.loop_free:
                self.fail("loop body changes %r, which is not threaded through the loop" % n, s)
            pre, ts = self.reading(lambda: self.args_of(mc[2], ["path"], env, e, mc[1]))
            env2 = dict(env)
            env2[n] = T(self.declare(n, "cfiles"), "cfiles")
            return "%slet %s := %s in\n%s" % (pre, cname(n), CF_MUTATORS[mc[1]].format(*ts, cf=env[n].txt), k(env2))
        c = self.mcall(e, env)
        if c:
            return self.bind_mcall(c, env, lambda t, env2: k(env2))
        self.fail("call statement %s" % ast.unparse(e)[:60], s)

    # ---- if ----
    def stmt_if(self, s, env, k):
        then = lambda env2: self.block(s.body, env2, k)
        other = lambda env2: self.block(s.orelse, env2, k)
        ite = lambda c, a, b: "(if %s then\n%s\n else\n%s)" % (c, ind(a, 4), ind(b, 4))
        if all(is_logger(x) or is_doc(x) for x in s.body) and all(is_logger(x) or is_doc(x) for x in s.orelse):
            # the branches only log: the test is evaluated for its effects
            self.block(s.body, env, lambda e: "")
            self.block(s.orelse, env, lambda e: "")
            if self.contains_m(s.test, env):
                return self.SEQ("(%s)" % self.mcomp(s.test, env), k(env))
            self.pure(s.test, env)
            return k(env)
        inner, neg = s.test, False
        while isinstance(inner, ast.UnaryOp) and isinstance(inner.op, ast.Not):
            inner, neg = inner.operand, not neg
        # x is [not] None  /  x is not None and REST
        first, restc = inner, []
        if isinstance(inner, ast.BoolOp) and isinstance(inner.op, ast.And) and not neg:
            first, restc = inner.values[0], inner.values[1:]
        if (isinstance(first, ast.Compare) and len(first.ops) == 1 and isinstance(first.ops[0], (ast.Is, ast.IsNot))
                and is_none(first.comparators[0]) and (not restc or isinstance(first.ops[0], ast.IsNot))):
            some_first = isinstance(first.ops[0], ast.IsNot) != neg
            left = first.left
            if self.is_selfop(left, env):
                x = env[left.id] if isinstance(left, ast.Name) else T("", "selfop")
                if x.known is None:
                    env_s, env_n = dict(env), dict(env)
                    if isinstance(left, ast.Name):
                        env_s[left.id], env_n[left.id] = T("", "selfop", known="some"), T("", "selfop", known="none")
                    v = self.fresh("so", "option opr")
                    if restc:
                        sub = ast.copy_location(ast.If(restc[0] if len(restc) == 1 else ast.BoolOp(ast.And(), restc),
                                                       s.body, s.orelse), s)
                        a, b = self.stmt(sub, env_s, [], k), other(env_n)
                    else:
                        f, g = (then, other) if some_first else (other, then)
                        a, b = f(env_s), g(env_n)
                    return self.BIND(v, "self_opt", "(match %s with\n | Some _ =>\n%s\n | None =>\n%s\n end)" % (
                        v, ind(a, 4), ind(b, 4)))
            else:
                pre, x = self.pure(left, env)
                if x.kind in ("oop", "json"):
                    env_s, env_n = dict(env), dict(env)
                    pat = "_"
                    if x.kind == "oop":
                        pat = self.fresh("v", "op")
                        if isinstance(left, ast.Name):
                            env_s[left.id], env_n[left.id] = T(pat, "op"), T("None", "none")
                        elif restc:
                            self.fail("`is not None and ...` on something other than a local", s)
                    if restc:
                        sub = ast.copy_location(ast.If(restc[0] if len(restc) == 1 else ast.BoolOp(ast.And(), restc),
                                                       s.body, s.orelse), s)
                        a, b = self.stmt(sub, env_s, [], k), other(env_n)
                    else:
                        f, g = (then, other) if some_first else (other, then)
                        a, b = f(env_s), g(env_n)
                    if x.kind == "oop":
                        return "%s(match %s with\n | Some %s =>\n%s\n | None =>\n%s\n end)" % (pre, x.txt, pat, ind(a, 4), ind(b, 4))
                    return "%s(match %s with\n | PNone =>\n%s\n | _ =>\n%s\n end)" % (pre, x.txt, ind(b, 4), ind(a, 4))
        c = self.mcall(inner, env)
        if c:
            def kont(t, env2):
                t = self.want(t, "bool", s)
                return ite("negb %s" % t.txt if neg else t.txt, then(env2), other(env2))
            return self.bind_mcall(c, env, kont)
        if self.contains_m(s.test, env):
            x = self.fresh("c", "bool")
            return self.BIND(x, "(%s)" % self.mcomp(s.test, env), ite(x, then(env), other(env)))
        pre, t = self.pure(s.test, env)
        t = self.want(t, "bool", s)
        if t.const is not None:
            return then(env) if t.const else other(env)
        return pre + ite(t.txt, then(env), other(env))

    # ---- loops ----
    def changed_in(self, nodes, env):
        """locals assigned, mutated or threaded through a call in nodes (in order of first occurrence)"""
        out = []

        def add(x):
            if x and x not in out:
                out.append(x)
        for b in nodes:
            for n in ast.walk(b):
                if isinstance(n, ast.Assign):
                    for tg in n.targets:
                        for y in (tg.elts if isinstance(tg, ast.Tuple) else [tg]):
                            if isinstance(y, ast.Name):
                                add(y.id)
                            elif isinstance(y, ast.Attribute) and isinstance(y.value, ast.Name) and y.value.id in env \
                                    and env[y.value.id].kind in ("opr", "sopr"):
                                add(y.value.id)
                if isinstance(n, ast.Call):
                    mc = method_call(n)
                    if mc and isinstance(mc[0], ast.Name) and mc[0].id in env and env[mc[0].id].kind == "cfiles" \
                            and (mc[1] in CF_MUTATORS or mc[1] in CF_MONADIC):
                        add(mc[0].id)
                    m = own_call(n)
                    if m in self.sigs and self.sigs[m].cf_out:
                        i = [p for p, _ in self.sigs[m].params].index(self.sigs[m].cf_param)
                        if i < len(n.args) and isinstance(n.args[i], ast.Name):
                            add(n.args[i].id)
        return out

    def stmt_for(self, s, env, k):
        if self.ret_wrap or self.hook or self.loop_ctx:
            self.fail("for loop inside a try statement or another loop", s)
        if s.orelse or not isinstance(s.target, ast.Name):
            self.fail("for loop target / else", s)
        g = self.sig
        if g.retkind is None:
            self.fail("for loop in a method whose result kind is not known in advance", s)
        x = s.target.id
        if x in env:
            self.fail("for loop variable %r is reused" % x, s)
        pre, it = self.pure(s.iter, env)
        it = self.want(it, "ops", s)
        if pre:
            self.fail("for loop over something other than <record>.suboperations", s)
        changed = self.changed_in(s.body, env)
        carried = [n for n in env if n in changed]
        for n in carried:
            if env[n].kind not in KTYPE or env[n].txt != cname(n):
                self.fail("loop changes %r, which is not a plain local" % n, s)
        before = list(self.scope)
        benv = dict(env)
        benv[x] = T(cname(x), "op")
        again = lambda e2: "loop xs'" + "".join(" " + e2[n].txt for n in carried)
        self.loop_ctx, self.loop_free = "loop", [n for n in env if n not in carried]
        body = self.block(s.body, benv, again)
        self.loop_ctx, self.loop_free = None, []
        nil = k(env)
        text = body + "\n" + nil
        cvars = [cname(n) for n in carried]
        recs = [(v, ty) for v, ty in self.rec_params if occurs(v, text)]
        inscope = []
        for n, t in env.items():
            inscope += [t.txt] + ([ft for ft, _ in t.fields.values()] if t.fields else [])
        cand = [v for v in before if re.fullmatch(r"[a-z]+\d+_", v) or v in inscope]
        free = [v for v in cand if occurs(v, text) and v not in cvars and v != cname(x) and v not in [r for r, _ in recs]]
        rt = KTYPE[g.retkind]
        if g.cf_out:
            rt = "%s * cfiles" % rt
        self.nloops += 1
        fname = "%s_loop%d" % (self.gname, self.nloops)
        params = "".join(" (%s : %s)" % a for a in recs) + "".join(" (%s : %s)" % (v, self.scope[v]) for v in free)
        defn = ("Definition @NAME@%s :=\n  fix loop (xs : list op)%s {struct xs} : %s :=\n    match xs with\n    | [] =>\n%s\n"
                "    | %s :: xs' =>\n%s\n    end.\n") % (
            params, "".join(" (%s : %s)" % (v, self.scope[v]) for v in cvars), self.mtype(rt), ind(nil, 8), cname(x), ind(body, 8))
        norm = lambda d: re.sub(r"\b([a-z]+)\d+_", r"\1#_", d)
        for nm, d in self.aux:
            if norm(d) == norm(defn):
                fname = nm
                self.nloops -= 1
                break
        else:
            self.aux.append((fname, defn))
        args = [self.rec_inst.get(v, v) for v, _ in recs] + free
        head = "(%s %s)" % (fname, " ".join(args)) if args else fname
        return "%s %s%s" % (head, it.txt, "".join(" " + env[n].txt for n in carried))

    # ---- try ----
    def may_fall(self, stmts):
        if not stmts:
            return True
        s = stmts[-1]
        if isinstance(s, (ast.Return, ast.Raise)):
            return False
        if isinstance(s, ast.If):
            return self.may_fall(s.body) or self.may_fall(s.orelse)
        if isinstance(s, ast.With):
            return self.may_fall(s.body)
        if isinstance(s, ast.Try):
            return self.may_fall(s.body) or any(self.may_fall(h.body) for h in s.handlers)
        return True

    def stmt_try(self, s, env, k):
        if s.orelse or not s.handlers:
            self.fail("try with else / without except", s)
        for b in s.finalbody:
            for n in ast.walk(b):
                if isinstance(n, (ast.Return, ast.Raise, ast.Try, ast.For)):
                    self.fail("%s inside finally" % type(n).__name__.lower(), n)
        k = self.frozen(k)
        outer_hook = self.hook
        e = self.fresh("e", "exn")
        fin = s.finalbody

        def fin_then(env2, tail):
            return self.block(fin, env2, tail) if fin else tail(env2)
        fin_then = self.frozen(fin_then)
        this_hook = (lambda env2, txt: fin_then(env2, lambda e3: outer_hook(e3, txt) if outer_hook else txt)) if fin else outer_hook
        # ---- the attempted computation and the normal path
        st = s.body[0] if len(s.body) == 1 else None
        sub = None
        if (isinstance(st, ast.Expr) and isinstance(st.value, ast.Call) and isinstance(st.value.func, ast.Attribute)
                and isinstance(st.value.func.value, ast.Name) and st.value.func.value.id in env
                and env[st.value.func.value.id].kind == "subbuilder"):
            sub = st.value
        if sub:
            obj = env[sub.func.value.id].obj
            m = sub.func.attr
            if m not in self.sigs or not self.sigs[m].bm or sub.keywords or not self.local_record(ast.Name(obj), env):
                self.fail("call on a sub-builder other than a method in scope", sub)
            h = self.sigs[m]
            pre, ts = self.reading(lambda: self.args_of(sub.args, [kd for _, kd in h.params], env, sub, m))
            if h.retkind is None:
                self.fail("result kind of %s is not known here" % m, sub)
            call = "(%s)" % " ".join([gname(m)] + ts) if ts else gname(m)
            r = self.fresh("r")
            head = "%s%s <~ run_sub %s %s ;;\nlet %s := fst %s in\n" % (pre, r, env[obj].txt, call, cname(obj), r)
            scrut = "snd %s" % r
            arms = [" | inl _ =>\n%s" % ind(fin_then(env, k), 4)]
        else:
            has_ret = any(isinstance(n, ast.Return) for b in s.body for n in ast.walk(b))
            falls = self.may_fall(s.body)
            both = has_ret and falls
            V = self.changed_in(s.body, env)
            seen = {}

            def kb(env2):
                vals = []
                for n in V:
                    if n not in env2 or env2[n].kind not in KTYPE:
                        self.fail("the local %r assigned in a try body has no value on some path" % n, s)
                    t = env2[n]
                    if seen.setdefault(n, (t.kind, t.cls)) != (t.kind, t.cls):
                        self.fail("the local %r has two kinds at the end of a try body" % n, s)
                    vals.append(t.txt)
                tup = "tt" if not vals else vals[0] if len(vals) == 1 else "(%s)" % ", ".join(vals)
                return self.RET("(inr %s)" % tup if both else tup)
            saved = (self.ret_wrap, self.hook)
            if both:
                self.ret_wrap = lambda v: "(inl %s)" % v
            elif has_ret:
                self.ret_wrap = lambda v: v
                self.ret_wrap.identity = True
            else:
                self.ret_wrap = None
            self.hook = None
            try:
                body = self.block(s.body, env, kb)
            finally:
                self.ret_wrap, self.hook = saved
            r = self.fresh("r")
            head = self.BIND(r, self.ATTEMPT(body), "")
            scrut = r

            def normal(c):
                env_n = dict(env)
                for n in V:
                    env_n[n] = T(self.declare(n, seen[n][0]), seen[n][0], cls=seen[n][1])
                names = [cname(n) for n in V]
                if not names:
                    return fin_then(env_n, k)
                if len(names) == 1:
                    return "let %s := %s in\n%s" % (names[0], c, fin_then(env_n, k))
                return "let '(%s) := %s in\n%s" % (", ".join(names), c, fin_then(env_n, k))
            c = self.fresh("c")
            returned = lambda: fin_then(env, self.frozen(lambda e2: self.emit_full(c, e2)))
            if both:
                arms = [" | inl (inl %s) =>\n%s" % (c, ind(returned(), 4)), " | inl (inr %s) =>\n%s" % (c, ind(normal(c), 4))]
            elif has_ret:
                arms = [" | inl %s =>\n%s" % (c, ind(returned(), 4))]
            else:
                txt = normal(c)
                arms = [" | inl %s =>\n%s" % (c if occurs(c, txt) else "_", ind(txt, 4))]
        # ---- the handlers
        saved = (self.hook, self.exc_var)
        self.hook, self.exc_var = this_hook, e
        try:
            nomatch = self.emit_raise(e, env)
            chain = []
            for h in s.handlers:
                if h.type is None:
                    self.fail("bare except", h)
                clss = h.type.elts if isinstance(h.type, ast.Tuple) else [h.type]
                tests = []
                for cl in clss:
                    if not isinstance(cl, ast.Name) or cl.id not in EXC_TEST:
                        self.fail("except clause %s" % ast.unparse(h.type), h)
                    tests.append(EXC_TEST[cl.id])
                env_h = dict(env)
                if h.name:
                    os_only = all(cl.id != "Exception" and cl.id != "TypeError" for cl in clss)
                    env_h[h.name] = T(e, "exc", cls="os" if os_only else None)
                # `after` runs outside the handler: the finally of this try is not pending any more
                after_ctx = (lambda env2: self._outside(saved, lambda: fin_then(env2, k)))
                btxt = self.block(h.body, env_h, after_ctx)
                chain.append((None if None in tests else " || ".join(t.format(e=e) for t in tests), btxt))
                if None in tests:
                    break
        finally:
            self.hook, self.exc_var = saved
        handler = None
        for test, btxt in reversed(chain):
            if test is None:
                handler = btxt
            else:
                handler = "(if %s then\n%s\n else\n%s)" % (test, ind(btxt, 4), ind(handler if handler is not None else nomatch, 4))
        arms.append(" | inr %s =>\n%s" % (e, ind(handler, 4)))
        return "%s(match %s with\n%s\n end)" % (head, scrut, "\n".join(arms))

    def _outside(self, ctx, f):
        saved = (self.hook, self.exc_var)
        self.hook, self.exc_var = ctx
        try:
            return f()
        finally:
            self.hook, self.exc_var = saved

    # ---- whole method ----
    def translate_body(self):
        g = self.sig
        env = {}
        for p, kd in g.params:
            if kd == "msg":
                continue
            if cname(p) != p:
                self.fail("parameter name %r" % p, self.fn)
            env[p] = T(self.declare(p, kd), kd)
        for v, ty in self.rec_params:
            self.scope[v] = ty
        body = self.block(self.fn.body, env, lambda e: self.fall_off(e, self.fn))
        if g.retkind is None or g.retkind not in KTYPE:
            self.fail("cannot type the result", self.fn)
        return body

    def signature(self):
        g = self.sig
        ps = " ".join("(%s : %s)" % (p, KTYPE[kd]) for p, kd in g.params if kd != "msg")
        rt = KTYPE[g.retkind]
        if g.cf_out:
            rt = "%s * cfiles" % rt
        return ps, self.mtype(rt)


class Translator:
    def __init__(self, repo):
        self.repo = repo
        self.path = os.path.join(repo, "file_builder", FILE)
        self.methods, self.sigs = {}, {}

    def fail(self, msg, node=None):
        raise TranslationError("%s:%d: %s" % (self.path, getattr(node, "lineno", 0), msg))

    def load(self):
        tree = ast.parse(open(self.path).read(), self.path)
        classes = [n for n in tree.body if isinstance(n, ast.ClassDef) and n.name == CLASS]
        if len(classes) != 1 or classes[0].bases or classes[0].decorator_list:
            self.fail("expected exactly one plain class %s" % CLASS, tree.body[0])
        for n in classes[0].body:
            if isinstance(n, ast.FunctionDef):
                if n.name in self.methods:
                    self.fail("method %s defined twice" % n.name, n)
                self.methods[n.name] = n
        for m in SCOPE:
            if m not in self.methods:
                self.fail("no method %s" % m, classes[0])
        for m in list(OWN_MODEL) + list(OWN_PURE):
            if m not in self.methods:
                self.fail("no method %s (table OWN_MODEL / OWN_PURE)" % m, classes[0])
        self.check_init()
        self.ctors, self.bases = read_constructors(os.path.join(self.repo, "file_builder", "operation.py"))
        # exec: the operation names are the keys of the table QUERIES (checked on simple_operation_executor.py)
        ex = executor_tr.Translator(os.path.join(self.repo, "file_builder", executor_tr.FILE))
        ex.load()
        if sorted(ex.operations) != sorted(QUERIES):
            self.fail("SimpleOperationExecutor.OPERATIONS is not the key set of the table QUERIES")

    def check_init(self):
        fn = self.methods.get("__init__")
        if fn is None or [a.arg for a in fn.args.args] != ["self"] + INIT_PARAMS or fn.args.defaults:
            self.fail("constructor parameters", fn)
        seen = {}
        for st in fn.body:
            if is_doc(st):
                continue
            a = self_attr(st.targets[0]) if isinstance(st, ast.Assign) and len(st.targets) == 1 else None
            if a is None or a in seen:
                self.fail("constructor statement", st)
            seen[a] = ast.unparse(st.value)
        want = {"_" + p: p for p in INIT_PARAMS}
        want.update({"_is_finished_build": "False", "_lock": "threading.Lock()"})
        if seen != want:
            self.fail("the constructor does not store exactly its parameters, _is_finished_build = False and the lock", fn)

    def analyse(self):
        for name in SCOPE:
            fn, g = self.methods[name], Sig()
            self.sigs[name] = g
            decos = [ast.unparse(d) for d in fn.decorator_list]
            if decos not in ([], ["staticmethod"]):
                self.fail("decorators of %s" % name, fn)
            g.static = decos == ["staticmethod"]
            a = fn.args
            if a.kwonlyargs or a.posonlyargs or fn.returns is not None or (not g.static and (not a.args or a.args[0].arg != "self")):
                self.fail("parameter list of %s" % name, fn)
            ps = [x.arg for x in (a.args if g.static else a.args[1:])]
            for d in a.defaults:
                if ast.unparse(d) not in DEFAULTS:
                    self.fail("default value %s" % ast.unparse(d), fn)
            g.varargs = bool(a.vararg or a.kwarg)
            if g.varargs:
                if not (a.vararg and a.kwarg and a.vararg.arg == "args" and a.kwarg.arg == "kwargs"):
                    self.fail("variadic parameters other than *args, **kwargs", fn)
                ps += ["args", "kwargs"]
            for p in ps:
                kd = PARAMS_OF.get((name, p), PARAMS.get(p))
                if kd is None:
                    self.fail("parameter %r of %s is not in the table PARAMS" % (p, name), fn)
                g.params.append((p, kd))
            if any(kd == "cfiles" for _, kd in g.params):
                g.cf_param = [p for p, kd in g.params if kd == "cfiles"][0]
            if g.params and g.params[0][1] == "op":
                g.rec_param = g.params[0][0]
            direct_bm = False
            subs = {t.id for n in ast.walk(fn) if isinstance(n, ast.Assign) and isinstance(n.value, ast.Call)
                    and ast.unparse(n.value.func) == CLASS for t in n.targets if isinstance(t, ast.Name)}
            for n in ast.walk(fn):
                if isinstance(n, (ast.FunctionDef, ast.Lambda, ast.ClassDef, ast.AsyncFunctionDef, ast.While, ast.Global,
                                  ast.Nonlocal, ast.Yield, ast.YieldFrom, ast.Await, ast.Delete, ast.AugAssign)) and n is not fn:
                    self.fail("%s inside %s" % (type(n).__name__, name), n)
                if self_attr(n) in OWN or self_attr(n) == "_lock":
                    direct_bm = True
                if isinstance(n, ast.Call):
                    if isinstance(n.func, ast.Name) and n.func.id in ("func", CLASS):
                        direct_bm = True
                    m = own_call(n)
                    if m is not None:
                        if m in SCOPE:
                            g.calls.append((m, n))
                        elif m not in OWN_MODEL and m not in OWN_PURE:
                            self.fail("call of %s, which is neither in SCOPE nor in the tables OWN_MODEL / OWN_PURE" % m, n)
                        elif m in OWN_MODEL and "{self}" in OWN_MODEL[m][0]:
                            direct_bm = True
                    if (isinstance(n.func, ast.Attribute) and isinstance(n.func.value, ast.Name)
                            and n.func.value.id in subs and n.func.attr in SCOPE):
                        g.calls.append((n.func.attr, None))
                if isinstance(n, ast.Return) and n.value is not None:
                    if is_none(n.value):
                        g.has_none = True
                    else:
                        g.has_value = True
            g.bm = direct_bm
            if g.static and g.bm:
                self.fail("static method %s uses the builder state" % name, fn)
        changed = True
        while changed:
            changed = False
            for name in SCOPE:
                g = self.sigs[name]
                if not g.bm and any(self.sigs[m].bm for m, _ in g.calls):
                    g.bm = changed = True
        # created_files is threaded through the methods that change it
        for name in SCOPE:
            g = self.sigs[name]
            if g.cf_param:
                for n in ast.walk(self.methods[name]):
                    mc = method_call(n) if isinstance(n, ast.Call) else None
                    if mc and isinstance(mc[0], ast.Name) and mc[0].id == g.cf_param and (mc[1] in CF_MUTATORS or mc[1] in CF_MONADIC):
                        g.cf_out = True
        changed = True
        while changed:
            changed = False
            for name in SCOPE:
                g = self.sigs[name]
                if g.cf_param and not g.cf_out:
                    for m, n in g.calls:
                        h = self.sigs[m]
                        if h.cf_out and n is not None:
                            i = [p for p, _ in h.params].index(h.cf_param)
                            if i < len(n.args) and isinstance(n.args[i], ast.Name) and n.args[i].id == g.cf_param:
                                g.cf_out = changed = True
        return self.components()

    def components(self):
        """strongly connected components of the call graph, callees first, in a deterministic order"""
        index, low, stack, on, out, counter = {}, {}, [], set(), [], [0]

        def visit(v):
            index[v] = low[v] = counter[0]
            counter[0] += 1
            stack.append(v)
            on.add(v)
            for w in [m for m in SCOPE if any(c == m for c, _ in self.sigs[v].calls)]:
                if w not in index:
                    visit(w)
                    low[v] = min(low[v], low[w])
                elif w in on:
                    low[v] = min(low[v], index[w])
            if low[v] == index[v]:
                comp = []
                while True:
                    w = stack.pop()
                    on.discard(w)
                    comp.append(w)
                    if w == v:
                        break
                out.append([m for m in SCOPE if m in comp])
        for v in SCOPE:
            if v not in index:
                visit(v)
        return out

    def preinfer(self, name):
        """result kind of a recursive method, from its return statements alone"""
        g, fn = self.sigs[name], self.methods[name]
        kinds = set()
        for n in ast.walk(fn):
            if isinstance(n, ast.Return) and n.value is not None:
                if isinstance(n.value, ast.Constant) and isinstance(n.value.value, bool):
                    kinds.add("bool")
                elif own_call(n.value) in SCOPE:
                    continue
                else:
                    self.fail("recursive method %s returns something other than a boolean literal or a recursive call" % name, n)
        if len(kinds) > 1:
            self.fail("result kind of the recursive method %s" % name, fn)
        g.retkind = kinds.pop() if kinds else "unit"

    def fn_type(self, name):
        g = self.sigs[name]
        rt = KTYPE[g.retkind] + (" * cfiles" if g.cf_out else "")
        return " -> ".join([KTYPE[kd] for _, kd in g.params if kd != "msg"] + [("BM (%s)" if g.bm else "M (%s)") % rt])

    def loop_calls(self, name, comp):
        """the calls of `name` to members of comp: (callee, inside a loop over <record>.suboperations on the loop variable?)"""
        fn, g = self.methods[name], self.sigs[name]
        inside = {}
        for n in ast.walk(fn):
            if (isinstance(n, ast.For) and isinstance(n.target, ast.Name)
                    and ast.unparse(n.iter) == "%s.suboperations" % g.rec_param):
                for b in n.body:
                    for c in ast.walk(b):
                        if isinstance(c, ast.Call) and own_call(c) in comp:
                            inside[id(c)] = bool(c.args) and isinstance(c.args[0], ast.Name) and c.args[0].id == n.target.id
        out = []
        for m, c in g.calls:
            if m in comp:
                if c is None:
                    self.fail("recursion through a sub-builder in %s" % name, fn)
                same = bool(c.args) and isinstance(c.args[0], ast.Name) and c.args[0].id == g.rec_param
                out.append((m, inside.get(id(c), False), same, c))
        return out

    def definition(self, tr, kw, name_txt, body):
        ps, rt = tr.signature()
        return "%s %s %s%s : %s :=\n%s" % (kw, name_txt, ps, " {struct %s}" % tr.sig.rec_param if kw in ("Fixpoint", "with") else "", rt, ind(body))

    def run(self):
        self.load()
        comps = self.analyse()
        out = []
        for comp in comps:
            recursive = len(comp) > 1 or any(m == comp[0] for m, _ in self.sigs[comp[0]].calls)
            if not recursive:
                tr = MethodTr(self, comp[0])
                body = tr.translate_body()
                out += [d.replace("@NAME@", nm) for nm, d in tr.aux]
                out.append(self.definition(tr, "Definition", tr.gname, body) + ".\n")
                continue
            for m in comp:
                if self.sigs[m].rec_param is None or self.sigs[m].bm:
                    self.fail("recursive method %s without a record as first parameter (or using the builder state)" % m, self.methods[m])
                self.preinfer(m)
            info = {m: self.loop_calls(m, comp) for m in comp}
            loopers = [m for m in comp if all(ins for _, ins, _, _ in info[m])]
            passers = [m for m in comp if m not in loopers]
            for m in passers:
                for callee, ins, same, c in info[m]:
                    if ins or not same or callee not in loopers:
                        self.fail("recursive call in %s that neither descends into <record>.suboperations nor passes the "
                                  "record on to a method that does" % m, c)
            if not passers:
                # a method that calls itself on the elements of its record's suboperations
                if len(comp) != 1:
                    self.fail("mutual recursion between %s" % ", ".join(comp), self.methods[comp[0]])
                m = comp[0]
                tr = MethodTr(self, m)
                tr.rec_params = [("rec_" + m.lstrip("_"), self.fn_type(m))]
                tr.rec_map = {m: "rec_" + m.lstrip("_")}
                tr.rec_inst = {"rec_" + m.lstrip("_"): gname(m)}
                body = tr.translate_body()
                out += [d.replace("@NAME@", nm) for nm, d in tr.aux]
                out.append(self.definition(tr, "Fixpoint", tr.gname, body) + ".\n")
                continue
            recs = [("rec_" + p.lstrip("_"), self.fn_type(p)) for p in passers]
            for m in loopers:
                for callee, _, _, c in info[m]:
                    if callee not in passers:
                        self.fail("recursive call between two methods that both loop over suboperations", c)
                tr = MethodTr(self, m)
                tr.rec_params = recs
                tr.rec_map = {p: "rec_" + p.lstrip("_") for p in passers}
                tr.rec_inst = {}
                body = tr.translate_body()
                out += [d.replace("@NAME@", nm) for nm, d in tr.aux]
                ps, rt = tr.signature()
                out.append("Definition %s_open %s %s : %s :=\n%s.\n" % (
                    tr.gname, " ".join("(%s : %s)" % r for r in recs), ps, rt, ind(body)))
            parts = []
            for i, m in enumerate(passers):
                tr = MethodTr(self, m)
                tr.rec_map = {l: "%s_open %s" % (gname(l), " ".join(gname(p) for p in passers)) for l in loopers}
                body = tr.translate_body()
                if tr.aux:
                    self.fail("loop in a method of a recursive group that passes its record on", self.methods[m])
                parts.append(self.definition(tr, "Fixpoint" if i == 0 else "with", tr.gname, body))
            out.append("\n".join(parts) + ".\n")
            for m in loopers:
                out.append("Definition %s := %s_open %s.\n" % (gname(m), gname(m), " ".join(gname(p) for p in passers)))
        return "\n".join(out)


def main():
    if len(sys.argv) != 3:
        print("usage: operations_tr.py <repo_dir> <output.v>")
        sys.exit(1)
    repo, out_path = sys.argv[1], sys.argv[2]
    try:
        tr = Translator(repo)
        defs = tr.run()
        txt = HEADER + records_text(tr.ctors) + PRELUDE + "\n(* ---- the methods ---- *)\n" + defs
    except (TranslationError, cache_tr.TranslationError, SyntaxError, OSError) as e:
        print("TRANSLATION-ERROR operations: %s" % e)
        sys.exit(1)
    try:
        old = open(out_path).read()
    except FileNotFoundError:
        old = None
    if old != txt:
        with open(out_path, "w") as f:
            f.write(txt)
        print("operations: regenerated", out_path)
    else:
        print("operations: unchanged")


if __name__ == "__main__":
    main()
