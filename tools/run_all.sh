#!/bin/bash
# tools/run_all.sh <tier> <seed>... — every claimed check, one after the other, summary lines only
tier=${1:-quick}; shift
cd /verif
for s in "${@:-0}"; do
  for p in C01 C02 C03 C04 C05 C06 C07 C08 C09 C10 C11 C12 C13 C14 C15 C16 C17 C18; do
    out=$(VERIF_SEED=$s bin/check $p --tier $tier 2>&1); rc=$?
    echo "seed=$s rc=$rc $(echo "$out" | tail -1)"
    echo "$out" | grep -E "^(VIOLATION|KNOWN-FINDING)" | head -5
  done
done
