"""tools/integrate_lib.py - add proof files / edit property files atomically: under the build lock, apply, build,
and put everything back if the build reports an error (so that no check ever sees a half-integrated tree)."""
import sys, os, shutil
sys.path.insert(0, '/verif')
from harness import common

def integrate(new_files, edits):
    """new_files: names relative to coq/ to add to _CoqProject; edits: {path: new_text}"""
    proj = '/verif/coq/_CoqProject'
    with common.Lock():
        saved = {p: open(p).read() for p in list(edits) + [proj]}
        t = saved[proj].rstrip('\n')
        for f in new_files:
            if f not in t.split('\n'):
                t += '\n' + f
        open(proj, 'w').write(t + '\n')
        for p, s in edits.items():
            open(p, 'w').write(s)
        cmd = ("cd /verif/coq && coq_makefile -f _CoqProject -o Makefile >/dev/null && "
               "make -k -j8 'COQC=timeout 900 coqc' 2>&1 | grep -B2 -A14 'Error' | head -60")
        rc, out = common.sh(["bash", "-c", cmd], 3000)
        if out.strip():
            for p, s in saved.items():
                open(p, 'w').write(s)
            common.sh(["bash", "-c", "cd /verif/coq && coq_makefile -f _CoqProject -o Makefile >/dev/null && make -k -j8 'COQC=timeout 900 coqc' >/dev/null 2>&1"], 3000)
            return False, out
        return True, ''
