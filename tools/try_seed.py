#!/usr/bin/env python3
"""tools/try_seed.py <ID> <worktree> [checks...]
Confirms a seeded change (suite passes, demo fails with it and passes without it) in its scratch
worktree, stores it under /verif/seeded/<ID>/, applies it to /repo, runs the given checks (default:
the property's own), records which raise a VIOLATION, and undoes it."""
import json, os, shutil, subprocess, sys, time

def sh(cmd, cwd=None, timeout=3000, env=None):
    p = subprocess.run(cmd, shell=True, cwd=cwd, stdout=subprocess.PIPE, stderr=subprocess.STDOUT, text=True, timeout=timeout, env=env)
    return p.returncode, p.stdout

sid, wt = sys.argv[1], sys.argv[2]
checks = sys.argv[3:] or [sid.split("-")[0]]
dst = os.path.join("/verif/seeded", sid)
os.makedirs(dst, exist_ok=True)
SUB = "MUT" if os.path.isdir(os.path.join(wt, "MUT")) else "_seed"
for f in ("patch.diff", "demo.py", "notes.md"):
    if os.path.exists(os.path.join(wt, SUB, f)):
        shutil.copy(os.path.join(wt, SUB, f), os.path.join(dst, f))
meta = {"id": sid, "property": sid.split("-")[0], "ran": []}
env = dict(os.environ, PYTHONPATH=wt)
# confirm in the scratch worktree
rc, out = sh("git stash list | wc -l", cwd=wt)
rc_t, out_t = sh("/venv/bin/python -m pytest -q -p no:cacheprovider 2>&1 | tail -1", cwd=wt)
meta["suite_with_change"] = out_t.strip()
rc_d1, out_d1 = sh("/venv/bin/python %s/demo.py 2>&1 | tail -3" % SUB, cwd=wt, env=env)
rc_d1 = subprocess.run("/venv/bin/python %s/demo.py >/dev/null 2>&1" % SUB, shell=True, cwd=wt, env=env).returncode
sh("git stash", cwd=wt)
rc_d0 = subprocess.run("/venv/bin/python %s/demo.py >/dev/null 2>&1" % SUB, shell=True, cwd=wt, env=env).returncode
sh("git stash pop", cwd=wt)
meta["demo_exit_with_change"] = rc_d1
meta["demo_exit_without_change"] = rc_d0
meta["demo_output_with_change"] = out_d1.strip()[-600:]
meta["confirmed"] = ("69 passed" in out_t) and rc_d1 != 0 and rc_d0 == 0
print("confirmed:", meta["confirmed"], meta["suite_with_change"], rc_d1, rc_d0)
if meta["confirmed"]:
    rc, out = sh("git -C /repo apply %s" % os.path.join(dst, "patch.diff"))
    if rc != 0:
        meta["apply_error"] = out[-500:]
        print("apply failed", out[-300:])
    else:
        try:
            for c in checks:
                t = time.time()
                rc, out = sh("bin/check %s --tier quick 2>&1 | grep -v '^note' | tail -8" % c, cwd="/verif")
                rc2 = 1 if "VIOLATION" in out else 0
                lines = [l for l in out.splitlines() if l.startswith("VIOLATION") or l.startswith("KNOWN")]
                noinput = any("no-failing-input-found" in l for l in lines)
                meta["ran"].append({"check": c, "detected": bool(rc2), "with_failing_input": bool(rc2) and not all("no-failing-input-found" in l for l in lines),
                                    "lines": lines[:3], "summary": out.strip().splitlines()[-1][:200] if out.strip() else "", "seconds": round(time.time() - t)})
                print(c, "detected" if rc2 else "MISSED", lines[:2])
        finally:
            sh("git -C /repo checkout -- .")
            # evidence and generated files written while the change was applied describe the changed tree
            sh("git -C /verif checkout -- evidence coq/Gen")
json.dump(meta, open(os.path.join(dst, "meta.json"), "w"), indent=1)
